#!/bin/bash
# tools/seeded-seeds.sh <slot> <name...> : for each seeded change run its own property's quick check
# with several seeds against a scratch worktree; prints which seeds detect it.
slot=$1; shift
SCR="/tmp/scratch/slot$slot"
HEAD="$(git -C /repo rev-parse HEAD)"
[ -d "$SCR" ] || git -C /repo worktree add --detach "$SCR" HEAD >/dev/null 2>&1
mkdir -p "/tmp/scratch/vout$slot"; cp "${VERIF_DIR:-/verif}/known_findings.json" "/tmp/scratch/vout$slot/"
for name in "$@"; do
  P="${name%%-*}"
  git -C "$SCR" checkout -q --detach "$HEAD"; git -C "$SCR" checkout -- . ; git -C "$SCR" clean -fdq -e target
  git -C "$SCR" apply "/verif/seeded/$name/patch.diff" || { echo "$name PATCH-FAIL"; continue; }
  res=""
  for seed in ${SEEDS:-1 2 3 4 5}; do
    R="$(cd "${VERIF_DIR:-/verif}" && VERIF_SEED=$seed VERIF_REPO="$SCR" VERIF_ROOT="/tmp/scratch/vout$slot" ./check "$P" --tier quick 2>&1)"
    if echo "$R" | grep -q "^VIOLATION"; then res="$res $seed:yes"; else res="$res $seed:NO($(echo "$R" | grep -E '^done|HARNESS' | tail -1 | cut -c1-60))"; fi
  done
  echo "$name$res"
  git -C "$SCR" checkout -- . ; git -C "$SCR" clean -fdq -e target
done
