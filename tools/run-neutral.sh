#!/bin/bash
# tools/run-neutral.sh <slot> <dir with patch.diff>...   (env CHECKS="C01 ..."; VERIF_DIR=<snapshot of /verif>)
# Applies each behaviour-preserving change to a scratch worktree of /repo (never /repo itself) and
# runs the quick checks against it; prints "<name>: silent" or the alarms.
SLOT="$1"; shift
SCR="/tmp/scratch/slot$SLOT"
HEAD="$(git -C /repo rev-parse HEAD)"
mkdir -p /tmp/scratch
if [ ! -d "$SCR" ]; then git -C /repo worktree add --detach "$SCR" HEAD >/dev/null 2>&1 || exit 2; fi
for D in "$@"; do
  D="$(readlink -f "$D")"; N="$(basename "$D")"
  git -C "$SCR" checkout -q --detach "$HEAD"; git -C "$SCR" checkout -- . ; git -C "$SCR" clean -fdq -e target
  if ! git -C "$SCR" apply "$D/patch.diff"; then echo "$N: PATCH-DOES-NOT-APPLY"; continue; fi
  mkdir -p "/tmp/scratch/vout$SLOT"; cp "${VERIF_DIR:-/verif}/known_findings.json" "/tmp/scratch/vout$SLOT/"
  RES=""
  for id in ${CHECKS:-C01 C02 C03 C04 C05 C08 C09 C10 C17 C18}; do
    R="$(cd "${VERIF_DIR:-/verif}" && VERIF_REPO="$SCR" VERIF_ROOT="/tmp/scratch/vout$SLOT" ./check "$id" --tier quick 2>&1)"; RC=$?
    if echo "$R" | grep -q "^VIOLATION"; then RES="$RES $id:ALARM($(echo "$R" | grep '^violation' | head -1 | cut -c1-260))"
    elif [ $RC -ne 0 ]; then RES="$RES $id:exit$RC"; fi
  done
  echo "$N:${RES:- silent}"
  git -C "$SCR" checkout -- . ; git -C "$SCR" clean -fdq -e target
done
