#!/bin/bash
# tools/seeded-eval.sh <src-dir with patch.diff demo.rs notes.md> <property> <name> [slot]
# 1. three-way confirmation in a scratch worktree of /repo (never /repo itself):
#    repo tests pass with the change; demo fails with it; demo passes without it
# 2. runs every claimed quick check against the changed tree (VERIF_REPO) and records which alarm
# 3. writes /verif/seeded/<name>/{patch.diff,demo.rs,notes.md,meta.json}
set -u
SRC="$(readlink -f "$1")"; PROP="$2"; NAME="$3"; SLOT="${4:-0}"
SCR="/tmp/scratch/slot$SLOT"
OUT="/verif/seeded/$NAME"
HEAD="$(git -C /repo rev-parse HEAD)"
if [ ! -d "$SCR" ]; then git -C /repo worktree add --detach "$SCR" HEAD >/dev/null 2>&1 || exit 2; fi
git -C "$SCR" checkout -q --detach "$HEAD"; git -C "$SCR" checkout -- . ; git -C "$SCR" clean -fdq -e target
export CARGO_NET_OFFLINE=true
# which crate does the demo belong to?
CRATE=mpd_protocol
if grep -qE "mpd_client::|use mpd_client" "$SRC/demo.rs"; then CRATE=mpd_client; fi
DEMO="$SCR/$CRATE/tests/seeded_demo.rs"
mkdir -p "$SCR/$CRATE/tests"
FEAT=""; [ "$CRATE" = mpd_protocol ] && FEAT="--features async"
run_demo() { (cd "$SCR" && timeout 600 cargo test -p $CRATE $FEAT --offline --test seeded_demo 2>&1 | tr -d '\000' | grep -E "^test result|^error" | head -3); }
# (c) demo on HEAD
cp "$SRC/demo.rs" "$DEMO"
DEMO_HEAD="$(run_demo)"
# (a)+(b) with the change
if ! git -C "$SCR" apply "$SRC/patch.diff"; then echo "$NAME: PATCH-DOES-NOT-APPLY"; exit 2; fi
DEMO_MUT="$(run_demo)"
rm -f "$DEMO"
SUITE="$(cd "$SCR" && cargo test --workspace --offline 2>&1 | grep -E "^test result" | tr '\n' ';')"
SUITE_OK=no; echo "$SUITE" | grep -q "FAILED" || { echo "$SUITE" | grep -q "58 passed" && echo "$SUITE" | grep -q "43 passed" && SUITE_OK=yes; }
HEAD_OK=no; echo "$DEMO_HEAD" | grep -q "test result: ok" && HEAD_OK=yes
MUT_FAILS=no; echo "$DEMO_MUT" | grep -qE "FAILED|^error" && MUT_FAILS=yes
# checks against the changed tree
mkdir -p "/tmp/scratch/vout$SLOT"; cp "${VERIF_DIR:-/verif}/known_findings.json" "/tmp/scratch/vout$SLOT/"
DETECT=""; DETAILS=""
for id in ${CHECKS:-C01 C02 C03 C04 C05 C08 C09 C10 C17 C18}; do
  R="$(cd "${VERIF_DIR:-/verif}" && VERIF_REPO="$SCR" VERIF_ROOT="/tmp/scratch/vout$SLOT" TIER=quick ./check "$id" --tier "${TIER:-quick}" 2>&1)"
  RC=$?
  if echo "$R" | grep -q "^VIOLATION"; then
    DETECT="$DETECT $id"
    CL="$(echo "$R" | grep "^violation" | head -1 | cut -c1-300 | sed 's/"/\\"/g')"
    DETAILS="$DETAILS\"$id\": \"$CL\","
  elif [ $RC -ne 0 ]; then
    DETECT="$DETECT $id(harness-exit-$RC)"
  fi
done
git -C "$SCR" checkout -- . ; git -C "$SCR" clean -fdq -e target
mkdir -p "$OUT"; cp "$SRC/patch.diff" "$SRC/demo.rs" "$OUT/"; cp "$SRC/notes.md" "$OUT/" 2>/dev/null
python3 - "$OUT/meta.json" "$PROP" "$NAME" "$CRATE" "$SUITE_OK" "$HEAD_OK" "$MUT_FAILS" "$DETECT" "$HEAD" <<'PY'
import json,sys,re
out,prop,name,crate,suite_ok,head_ok,mut_fails,detect,head=sys.argv[1:10]
notes=''
try: notes=open(out.replace('meta.json','notes.md')).read()
except Exception: pass
m={"name":name,"breaks_property":prop,"origin":"independent sub-agent given only the property text and a scratch worktree",
   "base_commit":head,"demo_crate":crate,
   "confirmed":{"repo_suite_passes_with_change":suite_ok=="yes","demo_passes_without_change":head_ok=="yes","demo_fails_with_change":mut_fails=="yes"},
   "needs_to_manifest": (re.search(r'(?is)(needs?|manifest)[^\n]*\n(.{0,600})',notes).group(0)[:700] if re.search(r'(?is)(needs?|manifest)',notes) else "see notes.md"),
   "ran":["git apply patch.diff in a scratch worktree of /repo","cargo test --workspace --offline (with change)","cargo test -p %s --test seeded_demo (with and without change)"%crate,"./check <ID> --tier quick for every claimed property with VERIF_REPO=<scratch>"],
   "quick_checks_raising_VIOLATION":detect.split()}
json.dump(m,open(out,'w'),indent=1)
print(name, "suite_ok=%s demo_head_ok=%s demo_mut_fails=%s detected_by=[%s]"%(suite_ok,head_ok,mut_fails,detect.strip()))
PY
