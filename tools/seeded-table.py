#!/usr/bin/env python3
"""Print the markdown table of /verif/seeded/*/meta.json (which checks catch which change)."""
import json, glob, os, re
rows = []
for f in sorted(glob.glob(os.path.join(os.path.dirname(__file__), '..', 'seeded', '*', 'meta.json'))):
    m = json.load(open(f))
    d = os.path.dirname(f)
    title = ''
    try:
        notes = open(os.path.join(d, 'notes.md')).read()
        # first heading or first non-empty line
        for line in notes.splitlines():
            line = line.strip().lstrip('#').strip()
            if line:
                title = line[:110]
                break
    except Exception:
        pass
    c = m['confirmed']
    ok = all(c.values())
    own = m['breaks_property'] in [x.split('(')[0] for x in m['quick_checks_raising_VIOLATION']]
    rows.append((m['name'], m['breaks_property'], title, 'yes' if ok else 'NO: %s' % c,
                 ' '.join(m['quick_checks_raising_VIOLATION']) or '—', 'yes' if own else 'no'))
print('| change | breaks | what it is (first line of its notes) | 3-way confirmed | quick checks raising VIOLATION | caught by its own property\'s check |')
print('|---|---|---|---|---|---|')
for r in rows:
    print('| %s | %s | %s | %s | %s | %s |' % r)
