#!/bin/bash
# Determinism self-test: for every claimed check, the digests of the first N run indexes are
# computed in separate processes at 1, 5 and 16 workers, twice each, for several seeds; every
# combination must print the same combined digest. Exit 2 on any mismatch (harness error).
cd "$(dirname "$0")/.." || exit 2
./check --setup || exit 2
BIN=sim/target/release/mpdsim
N_SESSION="${N_SESSION:-3000}"; N_WIRE="${N_WIRE:-300}"
RC=0
for seed in ${SEEDS:-7172196 1 2 3}; do
  for id in C01 C04 C05 C08 C17 C18 C02 C03 C09 C10; do
    # C01/C04/C05: run indexes below 11754 are the seed-independent timing sweep; go beyond it
    case $id in C02|C03|C09|C10) n=$N_WIRE;; C08) n=$((N_SESSION/4));; C01|C04|C05) n=$((11754+N_SESSION));; *) n=$N_SESSION;; esac
    ref=""
    for w in 1 5 16 16; do
      out="$(VERIF_SEED=$seed $BIN digests $id $n $w | tail -1)"
      d="${out##*combined=}"
      if [ -z "$ref" ]; then ref="$d"; echo "seed=$seed $out"; fi
      if [ "$d" != "$ref" ]; then echo "NONDETERMINISM property=$id seed=$seed workers=$w: $d vs $ref"; RC=2; fi
    done
  done
done
[ $RC = 0 ] && echo "determinism self-test passed"
exit $RC
