#!/usr/bin/env python3
import subprocess, os, re
here = os.path.dirname(os.path.abspath(__file__))
table = subprocess.run([os.path.join(here, 'seeded-table.py')], capture_output=True, text=True).stdout
p = os.path.join(here, '..', 'DESIGN.md')
s = open(p).read()
s = re.sub(r'<!-- SEEDED-TABLE-BEGIN -->.*<!-- SEEDED-TABLE-END -->',
           '<!-- SEEDED-TABLE-BEGIN -->\n' + table + '<!-- SEEDED-TABLE-END -->', s, flags=re.S)
open(p, 'w').write(s)
print(table.count('\n') - 2, 'rows')
