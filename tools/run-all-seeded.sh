#!/bin/bash
# tools/run-all-seeded.sh <slot> P:round:k ...   e.g.  CHECKS="C01 C05" tools/run-all-seeded.sh 1 C01:9:1
# Evaluates sub-agent output /tmp/mut/<P>-out<round>/m<k> with tools/seeded-eval.sh (one scratch
# worktree per slot under /tmp/scratch/slot<slot>; VERIF_DIR=<snapshot worktree of /verif> keeps
# edits in progress out of the evaluation).
SLOT="$1"; shift
for spec in "$@"; do
  IFS=: read P R K <<<"$spec"
  SRC="/tmp/mut/$P-out$R/m$K"; NAME="$P-r${R}m$K"
  [ -f "$SRC/patch.diff" ] || { echo "$NAME: missing"; continue; }
  "$(dirname "$0")/seeded-eval.sh" "$SRC" "$P" "$NAME" "$SLOT"
done
