#!/bin/bash
# tools/try-edit.sh <patch-file> <check-ids...>
# Applies a patch to a scratch worktree of /repo (never /repo itself), optionally runs the
# repository's own tests there, then runs the given quick checks against the scratch tree
# (VERIF_REPO) and reverts the scratch tree. Used for sensitivity / neutrality experiments.
set -u
PATCH="$(readlink -f "$1")"; shift
SCR="${SCR:-/tmp/scratch/repo}"
if [ ! -d "$SCR" ]; then git -C /repo worktree add --detach "$SCR" HEAD >/dev/null 2>&1 || exit 2; fi
git -C "$SCR" checkout -q --detach "$(git -C /repo rev-parse HEAD)" 2>/dev/null
git -C "$SCR" checkout -- . && git -C "$SCR" clean -fdq -e target
if ! git -C "$SCR" apply "$PATCH"; then echo "PATCH-DOES-NOT-APPLY"; exit 2; fi
if [ "${RUN_REPO_TESTS:-1}" = "1" ]; then
  (cd "$SCR" && cargo test --workspace --offline 2>&1 | grep -E "^test result|FAILED|panicked|^error" | head -8)
fi
RC=0
for id in "$@"; do
  OUT="$(cd "${VERIF_DIR:-/verif}" && VERIF_REPO="$SCR" VERIF_ROOT="/tmp/scratch/verif-out-$(basename "$SCR")" ./check "$id" --tier "${TIER:-quick}" 2>&1)"
  echo "$OUT" | grep -E "^(done|VIOLATION|violation|KNOWN|HARNESS)" | cut -c1-400
done
git -C "$SCR" checkout -- . && git -C "$SCR" clean -fdq -e target
