//! A `tracing` subscriber that enables every level and formats every field into a sink. It is
//! installed as the process-wide default, so that the expressions inside the library's
//! `trace!`/`debug!` calls and the `Debug` impls they use are real code in every simulated run
//! rather than dead code: an application that turns on TRACE logging must not change what the
//! client does. (It is process-wide and unconditional on purpose: `tracing` caches per call site
//! whether anybody is interested, across threads, so a per-run switch would make a run's
//! behaviour depend on what other worker threads are doing — found the hard way, as a replay
//! that did not reproduce.)

use std::fmt::Write;
use std::sync::atomic::{AtomicU64, Ordering};

use tracing::field::{Field, Visit};
use tracing::span::{Attributes, Id, Record};
use tracing::{Event, Metadata, Subscriber};

pub struct TraceAll {
    next: AtomicU64,
}

impl TraceAll {
    pub fn new() -> TraceAll {
        TraceAll {
            next: AtomicU64::new(1),
        }
    }
}

/// Formats into nothing, but does run the `Debug`/`Display` code — for the first 512 bytes of
/// output per field; then it reports an error, which makes the formatter stop (formatting
/// 30 KB values character by character on every event would dominate the run time).
struct Sink(usize);

impl Write for Sink {
    fn write_str(&mut self, s: &str) -> std::fmt::Result {
        self.0 += s.len();
        if self.0 > 512 {
            Err(std::fmt::Error)
        } else {
            Ok(())
        }
    }
}

struct Fmt(Sink);

impl Visit for Fmt {
    fn record_debug(&mut self, _field: &Field, value: &dyn std::fmt::Debug) {
        self.0 .0 = 0;
        let _ = write!(self.0, "{:?}", value);
    }
}

impl Subscriber for TraceAll {
    fn enabled(&self, _metadata: &Metadata<'_>) -> bool {
        true
    }
    fn new_span(&self, span: &Attributes<'_>) -> Id {
        span.record(&mut Fmt(Sink(0)));
        Id::from_u64(self.next.fetch_add(1, Ordering::Relaxed))
    }
    fn record(&self, _span: &Id, values: &Record<'_>) {
        values.record(&mut Fmt(Sink(0)));
    }
    fn record_follows_from(&self, _span: &Id, _follows: &Id) {}
    fn event(&self, event: &Event<'_>) {
        event.record(&mut Fmt(Sink(0)));
    }
    fn enter(&self, _span: &Id) {}
    fn exit(&self, _span: &Id) {}
}

/// Install the subscriber for the whole process. Call once, first thing in `main`.
pub fn install_global() {
    let _ = tracing::subscriber::set_global_default(TraceAll::new());
}
