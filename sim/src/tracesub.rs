//! A `tracing` subscriber that enables every level and formats every field into a sink. Half of
//! the runs execute under it (scoped to the run's thread), so that the expressions inside the
//! library's `trace!`/`debug!` calls and the `Debug` impls they use are real code in the
//! simulation rather than dead code: an application that turns on TRACE logging must not change
//! what the client does.

use std::fmt::Write;
use std::sync::atomic::{AtomicU64, Ordering};

use tracing::field::{Field, Visit};
use tracing::span::{Attributes, Id, Record};
use tracing::{Event, Metadata, Subscriber};

pub struct TraceAll {
    next: AtomicU64,
}

impl TraceAll {
    pub fn new() -> TraceAll {
        TraceAll {
            next: AtomicU64::new(1),
        }
    }
}

/// Formats into nothing, but does run the `Debug`/`Display` code.
struct Sink(usize);

impl Write for Sink {
    fn write_str(&mut self, s: &str) -> std::fmt::Result {
        self.0 += s.len();
        Ok(())
    }
}

struct Fmt(Sink);

impl Visit for Fmt {
    fn record_debug(&mut self, _field: &Field, value: &dyn std::fmt::Debug) {
        let _ = write!(self.0, "{:?}", value);
    }
}

impl Subscriber for TraceAll {
    fn enabled(&self, _metadata: &Metadata<'_>) -> bool {
        true
    }
    fn new_span(&self, span: &Attributes<'_>) -> Id {
        span.record(&mut Fmt(Sink(0)));
        Id::from_u64(self.next.fetch_add(1, Ordering::Relaxed))
    }
    fn record(&self, _span: &Id, values: &Record<'_>) {
        values.record(&mut Fmt(Sink(0)));
    }
    fn record_follows_from(&self, _span: &Id, _follows: &Id) {}
    fn event(&self, event: &Event<'_>) {
        event.record(&mut Fmt(Sink(0)));
    }
    fn enter(&self, _span: &Id) {}
    fn exit(&self, _span: &Id) {}
}

/// Run `f` with TRACE logging switched on for this thread (or not).
pub fn with_tracing<R>(on: bool, f: impl FnOnce() -> R) -> R {
    if on {
        tracing::subscriber::with_default(TraceAll::new(), f)
    } else {
        f()
    }
}
