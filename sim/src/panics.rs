//! Panic bookkeeping: a global hook records message and location per thread (runs are confined to
//! one thread) instead of printing; spawned tasks that panic inside tokio are thereby visible too.

use std::cell::RefCell;

thread_local! {
    static LOG: RefCell<Vec<String>> = const { RefCell::new(Vec::new()) };
    static LAST_LOC: RefCell<Option<String>> = const { RefCell::new(None) };
}

pub fn install() {
    let verbose = std::env::var_os("VERIF_VERBOSE").is_some();
    std::panic::set_hook(Box::new(move |info| {
        if info
            .payload()
            .downcast_ref::<crate::wire::reader::Starved>()
            .is_some()
        {
            return;
        }
        if let Some(b) = info
            .payload()
            .downcast_ref::<crate::wire::reader::BudgetExceeded>()
        {
            if verbose {
                eprintln!("[budget] {}", b.0);
            }
            let _ = LOG.try_with(|l| l.borrow_mut().push(format!("BUDGET: {}", b.0)));
            return;
        }
        let msg = if let Some(s) = info.payload().downcast_ref::<&str>() {
            s.to_string()
        } else if let Some(s) = info.payload().downcast_ref::<String>() {
            s.clone()
        } else {
            "<non-string panic payload>".to_string()
        };
        let loc = info
            .location()
            .map(|l| format!("{}:{}", l.file(), l.line()))
            .unwrap_or_default();
        if verbose {
            eprintln!("[panic] {} @ {}", msg, loc);
        }
        let _ = LAST_LOC.try_with(|l| *l.borrow_mut() = Some(loc.clone()));
        let _ = LOG.try_with(|l| l.borrow_mut().push(format!("{} @ {}", msg, loc)));
    }));
}

pub fn take_last_location() -> Option<String> {
    LAST_LOC.with(|l| l.borrow_mut().take())
}

/// Drain the panics recorded on this thread.
pub fn take_all() -> Vec<String> {
    LAST_LOC.with(|l| *l.borrow_mut() = None);
    LOG.with(|l| std::mem::take(&mut *l.borrow_mut()))
}
