pub mod checks;
pub mod gen;
pub mod mpd;
pub mod net;
pub mod oracle;
pub mod plan;
pub mod run;

use crate::session::net::LogEntry;

pub fn format_log(log: &[LogEntry], max: usize) -> Vec<String> {
    let mut out = Vec::new();
    let skip = if log.len() > max { log.len() - max } else { 0 };
    if skip > 0 {
        out.push(format!("… {} earlier events omitted", skip));
    }
    for e in &log[skip..] {
        out.push(format!("#{:<4} t={:>6}ms {:?}", e.seq, e.ms, e.ev));
    }
    out
}
