//! Session-engine checks: C01, C04, C05, C08, C17 and C18 (greeting via the wire engine, password
//! via the session engine).

use std::time::Duration;

use serde::{Deserialize, Serialize};
use serde_json::json;

use crate::framework::{Check, Eval, KnownFindings, Tier, Violation, WorkerCtx};
use crate::prng::{mix, Fnv, Rng};
use crate::session::gen::{self, Ids, Workload};
use crate::session::mpd::{RespKind, UnitKind};
use crate::session::net::Ev;
use crate::session::oracle;
use crate::session::plan::*;
use crate::session::run::{execute, OpResult, RunOutput};
use crate::session::format_log;
use crate::wire::checks as wire_checks;
use crate::wire::checks::WireCase;

type Oracle = fn(&Plan, &RunOutput) -> Option<Violation>;

fn state_tuples(out: &RunOutput) -> Vec<u64> {
    let mut v = Vec::with_capacity(out.log.len());
    for e in &out.log {
        let mut h = Fnv::new();
        h.write_u64(e.state as u64);
        h.write_str(&e.ev.kind_code());
        v.push(h.finish());
    }
    v.sort_unstable();
    v.dedup();
    v
}

fn eval_with(plan: &Plan, oracle: Oracle, nontrivial: fn(&Plan, &RunOutput) -> bool) -> (Eval, RunOutput) {
    let out = execute(plan);
    let ev = Eval {
        violation: oracle(plan, &out),
        digest: out.digest,
        signature: out.signature,
        nontrivial: nontrivial(plan, &out),
        sim_ms: out.sim_ms,
        events: out.log.len() as u64,
        states: state_tuples(&out),
    };
    (ev, out)
}

fn trace_plan(plan: &Plan, oracle: Oracle) -> Vec<String> {
    let out = execute(plan);
    let mut t = Vec::new();
    t.push(format!("plan: {}", summarize_plan(plan)));
    t.extend(format_log(&out.log, 160));
    for o in &out.ops {
        t.push(format!(
            "op caller={} #{}.{} {}{:?} -> {}",
            o.caller,
            o.op,
            o.sub,
            o.kind,
            o.ids,
            o.result.summary()
        ));
    }
    t.push(format!("events delivered: {:?}", out.events.iter().map(|e| &e.2).collect::<Vec<_>>()));
    t.push(format!("connection end injected: {:?}; observed by client: {:?}", out.end, out.observed_kind));
    if !out.panics.is_empty() {
        t.push(format!("panics: {:?}", out.panics));
    }
    t.push(format!("verdict: {:?}", oracle(plan, &out)));
    t
}

pub fn summarize_plan(p: &Plan) -> String {
    format!(
        "callers={:?} changes={:?} faults={:?} net={{mode:{:?} delay:{:?} lat:{} rp:{:?} c2s:{:?} wc:{:?} wp:{:?} eof+{}}} pw={:?} pics={} limit={} seed={}",
        p.callers,
        p.changes.iter().map(|c| (c.at_ms, c.names.clone())).collect::<Vec<_>>(),
        p.faults,
        p.net.s2c_mode,
        p.net.s2c_delay_ms,
        p.net.s2c_latency_ms,
        p.net.read_pending,
        p.net.c2s_latency_ms,
        p.net.write_chunk.iter().map(|c| if *c == usize::MAX { 0 } else { *c }).collect::<Vec<_>>(),
        p.net.write_pending,
        p.net.eof_delay_ms,
        p.password,
        p.pictures.len(),
        p.binary_limit,
        p.tokio_seed
    )
}

fn sample_of(plan: &Plan, out: &RunOutput) -> serde_json::Value {
    json!({
        "plan": summarize_plan(plan),
        "trace_head": format_log(&out.log, 400).into_iter().take(40).collect::<Vec<_>>(),
        "ops": out.ops.iter().map(|o| format!("caller {} {}{:?} -> {}", o.caller, o.kind, o.ids, o.result.summary())).collect::<Vec<_>>(),
        "events": out.events.iter().map(|e| format!("{:?}", e.2)).collect::<Vec<_>>(),
    })
}

/// Derived reach probes, bumped into the worker's counters.
fn bump_probes<C: Clone + Serialize>(ctx: &mut WorkerCtx<C>, plan: &Plan, out: &RunOutput) {
    for (k, v) in &out.probes {
        ctx.counters.add(k, *v);
    }
    if out.noidle_ignored > 0 {
        ctx.counters.bump("noidle_race");
    }
    match plan.consumer {
        Consumer::Ticking { form, .. } => {
            ctx.counters.bump(match form {
                1 => "consumer.ticking_select",
                2 => "consumer.ticking_poll_once",
                _ => "consumer.ticking_timeout",
            });
        }
        Consumer::DropAt(_) => ctx.counters.bump("consumer.receiver_dropped"),
        Consumer::StartAt(_) => ctx.counters.bump("consumer.starts_late"),
        Consumer::Never => ctx.counters.bump("consumer.never_polls"),
        Consumer::Drain => {}
    }
    if plan.net.vectored {
        ctx.counters.bump("transport_with_native_vectored_writes");
    }
    if plan.net.s2c_latency_ms >= 1000 {
        ctx.counters.bump("slow_link_plans");
    }
    if plan.replies.values().any(|s| s.fields >= 513) {
        ctx.counters.bump("big_listing_reply_plans");
    }
    if plan
        .callers
        .iter()
        .flatten()
        .any(|o| matches!(o, Op::Think { ms } if *ms >= 10_000))
    {
        ctx.counters.bump("long_quiet_stretch_plans");
    }
    if plan.password.is_none() && !plan.faults.is_empty() && plan.callers.is_empty() {
        // (C18) bare handshake with the write side breaking right after it
        ctx.counters.bump("fault_right_after_handshake_no_workload");
    }
    if out.idle_immediate > 0 {
        ctx.counters.bump("idle_answered_immediately_runs");
    }
    // request written directly inside the re-idle window (previous line is not noidle)
    let lines = &out.judge.lines;
    let mut in_list = false;
    let mut prev_unit_kind = "";
    for l in lines.iter() {
        let w = l.split(' ').next().unwrap_or("");
        if in_list {
            if w == "command_list_end" {
                in_list = false;
            }
            continue;
        }
        match w {
            "idle" => {
                if prev_unit_kind == "req" {
                    ctx.counters.bump("timer_reidle");
                }
                prev_unit_kind = "idle";
            }
            "noidle" => prev_unit_kind = "noidle",
            _ => {
                if prev_unit_kind == "req" {
                    ctx.counters.bump("direct_send_in_window");
                }
                prev_unit_kind = "req";
                if w == "command_list_ok_begin" {
                    in_list = true;
                }
            }
        }
    }
    // idle reply read in several reads with an enqueue in between
    for r in &out.responses {
        if let RespKind::Idle { changes, .. } = &r.kind {
            if changes.is_empty() {
                continue;
            }
            let reads: Vec<u64> = out
                .log
                .iter()
                .filter_map(|e| match &e.ev {
                    Ev::ClientRead { start, end, .. } if *end > r.start && *start < r.end => Some(e.seq),
                    _ => None,
                })
                .collect();
            if reads.len() > 1 {
                let (a, b) = (reads[0], *reads.last().unwrap());
                if out
                    .log
                    .iter()
                    .any(|e| e.seq > a && e.seq < b && matches!(e.ev, Ev::Invoke { .. }))
                {
                    ctx.counters.bump("idle_reply_split_with_request_between");
                }
            }
        }
    }
    for u in &out.units {
        if u.kind == UnitKind::List {
            if let Some(e) = &u.reply.error {
                let n = u.lines.len() as u64;
                if e.index == 0 {
                    ctx.counters.bump("list_partial_failure.first");
                } else if e.index + 1 == n {
                    ctx.counters.bump("list_partial_failure.last");
                } else {
                    ctx.counters.bump("list_partial_failure.middle");
                }
            }
        }
    }
    for o in &out.ops {
        if o.result == OpResult::Cancelled {
            let reached = o
                .ids
                .first()
                .map(|id| {
                    let needle = format!("req {}", id);
                    out.units.iter().any(|u| u.lines.contains(&needle))
                })
                .unwrap_or(false);
            if o.cancel_after == Some(0) {
                ctx.counters.bump("cancel_before_dequeue");
            }
            if reached {
                ctx.counters.bump("cancel_in_flight_or_sent");
            }
        }
    }
    for f in &out.faults_fired {
        ctx.counters.bump(&format!("fault_fired.{}", f));
    }
    // reach of the rare plan kinds
    let nops: usize = plan.callers.iter().flatten().map(|o| o.ids().len().max(1)).sum();
    if nops > 100 {
        ctx.counters.bump("rare.long_history_or_big_burst");
    }
    if plan
        .callers
        .iter()
        .flatten()
        .any(|o| matches!(o, Op::Burst { ops } if ops.len() > 100))
    {
        ctx.counters.bump("rare.more_than_128_requests_outstanding");
    }
    if plan.replies.values().any(|s| s.delay_ms >= 59_999) {
        ctx.counters.bump("rare.minutes_long_reply");
    }
    if plan.changes.len() > 1000 {
        ctx.counters.bump("rare.notification_flood");
    }
    if plan.replies.values().any(|s| s.binary.unwrap_or(0) >= 65_536) {
        ctx.counters.bump("rare.payload_64k_or_more");
    }
    if plan.binary_limit >= 1_000_000 {
        ctx.counters.bump("rare.megabyte_chunks_giant_picture");
    }
    if !plan.faults.is_empty() && out.faults_fired.is_empty() {
        ctx.counters.bump("fault_planned_but_not_reached");
    }
    let (ok, err, cancelled) = oracle::count_ops(out);
    ctx.counters.add("ops_ok", ok as u64);
    ctx.counters.add("ops_err", err as u64);
    ctx.counters.add("ops_cancelled", cancelled as u64);
    // both select! branches ready at the same instant: an enqueue and a completed idle reply
    // with no run-loop step in between (same ms)
    let mut last_invoke_ms = u64::MAX;
    for e in &out.log {
        match &e.ev {
            Ev::Invoke { .. } => last_invoke_ms = e.ms,
            Ev::ClientRead { completes, .. }
                if e.ms == last_invoke_ms && completes.iter().any(|c| c.starts_with("idle")) =>
            {
                ctx.counters.bump("both_ready_select");
            }
            _ => {}
        }
    }
}

fn session_components() -> (Vec<String>, Vec<String>) {
    (
        vec![
            "mpd_client::Client, run loop (client/connection.rs), album_art, do_connect — real, unmodified".into(),
            "mpd_protocol::AsyncConnection, parser, ResponseBuilder, command encoder — real, unmodified".into(),
            "tokio 1.43 mpsc/oneshot/select!/timeout, current-thread scheduler, timer wheel — real; made deterministic by start_paused(true) + Builder::rng_seed".into(),
        ],
        vec![
            "TCP/Unix socket: SimNet in-memory transport (segmentation, latency, short writes, spurious Pending, EOF, resets, I/O errors, garbage)".into(),
            "MPD server: SimMpd reference model (greeting, password, idle/noidle rules, command lists, binary chunking); also the judge of session legality".into(),
            "callers: scripted tasks generated from the seed".into(),
        ],
    )
}

fn session_assumptions() -> Vec<String> {
    vec![
        "SimMpd is a model of MPD written from the protocol reference / client_process_line semantics, not MPD itself".into(),
        "tokio's channel/timer internals are trusted; thread-level interleavings inside tokio are not explored (the library shares no state of its own between threads)".into(),
        "time grid 1 ms; at most 4 callers and 32 ops per run; replies up to ~64 KiB".into(),
        "workload arguments come from the unreserved alphabet (escaping is a separate, not-applicable property)".into(),
    ]
}

const SESSION_PROBES: &[&str] = &[
    "noidle_race",
    "both_ready_select",
    "direct_send_in_window",
    "timer_reidle",
    "idle_reply_split_with_request_between",
    "multi_subsystem_reply",
    "unknown_subsystem",
    "list_partial_failure.first",
    "list_partial_failure.middle",
    "list_partial_failure.last",
    "cancel_before_dequeue",
    "cancel_in_flight_or_sent",
    "reply_crosses_4096",
    "short_write_split_line",
    "change_while_request_in_flight",
    "rare.long_history_or_big_burst",
    "rare.more_than_128_requests_outstanding",
    "rare.minutes_long_reply",
    "rare.payload_64k_or_more",
];

fn fault_free_plan(rng: &mut Rng, w: &Workload, max_events: usize, unknown: bool, max_names: usize) -> Plan {
    let mut plan = gen::base_plan(rng);
    let mut ids = Ids(0);
    gen::gen_workload(rng, &mut plan, &mut ids, w);
    plan.net = gen::gen_net(rng);
    gen::gen_changes(rng, &mut plan, max_events, unknown, max_names);
    gen::tame_net_for_big_plans(&mut plan);
    let long_quiet = rng.chance(1, 40);
    if long_quiet {
        gen::add_long_quiet(rng, &mut plan, &mut ids);
    }
    match rng.below(80) {
        0 | 1 => gen::slow_link(rng, &mut plan),
        2 | 3 => {
            gen::add_big_listing(rng, &mut plan);
        }
        _ => {}
    }
    if long_quiet || rng.chance(1, 3) {
        gen::retarget_changes(rng, &mut plan);
    }
    if rng.chance(1, 12) {
        plan.consumer = gen::ticking_consumer(rng, &plan);
    }
    plan
}

macro_rules! session_check_common {
    () => {
        fn shrink(&self, case: &Plan) -> Vec<Plan> {
            gen::shrink_plan(case)
        }
        fn assumptions(&self) -> Vec<String> {
            session_assumptions()
        }
        fn components(&self) -> (Vec<String>, Vec<String>) {
            session_components()
        }
    };
}

// =============================================================================================
// C01

pub struct C01;

fn nt_c01(_p: &Plan, out: &RunOutput) -> bool {
    out.ops.iter().any(|o| o.return_seq.is_some())
}

impl Check for C01 {
    type Case = Plan;
    fn id(&self) -> &'static str {
        "C01"
    }
    fn level(&self) -> &'static str {
        "exploration"
    }
    fn budget(&self, tier: Tier) -> (u64, Duration) {
        match tier {
            Tier::Quick => (60_000, Duration::from_secs(120)),
            Tier::Thorough => (u64::MAX, Duration::from_secs(600)),
        }
    }
    fn run_index(&self, seed: u64, index: u64, _tier: Tier, ctx: &mut WorkerCtx<Plan>, known: &KnownFindings) {
        let mut rng = Rng::new(mix(seed, "C01", index));
        if index < gen::timing_sweep_len() {
            // systematic part: every placement of small scenarios on the millisecond grid
            let plan = gen::timing_sweep_plan(index);
            ctx.about_to_eval(&plan);
            let (ev, out) = eval_with(&plan, oracle::check_c01, nt_c01);
            bump_probes(ctx, &plan, &out);
            ctx.counters.bump("timing_sweep_plans");
            ctx.record(&plan, ev, known);
            return;
        }
        let mut plan = fault_free_plan(&mut rng, &Workload::full(), 6, false, 3);
        // the application may drop the event receiver at any time
        if rng.chance(1, 8) {
            plan.consumer = Consumer::DropAt(rng.below(gen::rough_span(&plan)));
        }
        // rarely: the application keeps the receiver but never polls it while the server reports
        // more than a thousand changes; requests issued afterwards must still be served
        if rng.chance(1, 200) {
            let n = *rng.pick(&[1025usize, 1100, 2050]);
            plan.changes = (0..n)
                .map(|i| ChangeEvent {
                    at_ms: i as u64,
                    names: vec![crate::session::mpd::SUBSYSTEMS[i % 14].to_string()],
                })
                .collect();
            plan.net = NetPolicy::default();
            plan.consumer = Consumer::Never;
            for c in plan.callers.iter_mut() {
                c.insert(0, Op::Think { ms: n as u64 + rng.below(50) });
            }
            ctx.counters.bump("notification_flood_with_unpolled_receiver");
        }
        ctx.about_to_eval(&plan);
        let (ev, out) = eval_with(&plan, oracle::check_c01, nt_c01);
        bump_probes(ctx, &plan, &out);
        if ctx.want_sample() && index % 7 == 2 && out.ops.len() >= 3 {
            ctx.sample(sample_of(&plan, &out));
        }
        ctx.record(&plan, ev, known);
    }
    fn eval(&self, case: &Plan) -> Eval {
        eval_with(case, oracle::check_c01, nt_c01).0
    }
    fn trace(&self, case: &Plan) -> Vec<String> {
        trace_plan(case, oracle::check_c01)
    }
    fn rule(&self) -> String {
        "run indexes below 11 754 are a SYSTEMATIC timing sweep that does not depend on the seed: \
         every placement on the 1 ms grid of (F1) one request at 0..10 ms and a two-subsystem change \
         at 0..10 ms, (F2) a second request 95..105 ms after the first with a change at 0..8 or \
         100..108 ms, (F3) two callers (request, failing list) at 0..6 ms each and a change at \
         0..6 ms, (F4) a request cancelled after 0..3 ms followed by another, a second caller at \
         0..8 ms and a change at 0..6 ms - each x 2-3 network variants x 2 select! seeds. Above \
         that: one evaluation = one seeded plan (1-4 scripted callers x up to 8 ops: requests, typed \
         requests, lists with optional failing index, bursts, cancellations, think times biased to \
         0/1/99/100/101/150/500 ms; 0-6 server change events, a third of the plans re-targeted to \
         +-1 ms of actual enqueue/reply instants; reply shapes up to ~64 KiB; random network policy \
         and tokio select! seed) executed on the paused-clock runtime; history oracle at quiescence: \
         completion, own reply by id, exactly-once at the server, per-caller order; distinct = \
         distinct order-only projection of the event log (interleaving signature); non-trivial = at \
         least one request returned".into()
    }
    fn probes(&self) -> Vec<&'static str> {
        SESSION_PROBES.to_vec()
    }
    session_check_common!();
}

// =============================================================================================
// C04

pub struct C04;

fn nt_c04(_p: &Plan, out: &RunOutput) -> bool {
    oracle::written_changes(out).len() > 1
}

fn gen_c04(rng: &mut Rng) -> Plan {
    let mut w = Workload::full();
    w.cancels = rng.chance(1, 3);
    w.big_replies = rng.chance(1, 4);
    let mut plan = gen::base_plan(rng);
    let mut ids = Ids(0);
    gen::gen_workload(rng, &mut plan, &mut ids, &w);
    plan.net = gen::gen_net(rng);
    // notification-heavy, idle replies cut between lines with small delays
    if rng.chance(1, 2) {
        plan.net.s2c_mode = rng
            .pick(&[
                SegMode::Lines,
                SegMode::BeforeLastLine,
                SegMode::Sizes(vec![1]),
                SegMode::Sizes(vec![8]),
            ])
            .clone();
        plan.net.s2c_delay_ms = rng.pick(&[vec![1], vec![0, 1], vec![2], vec![0, 3, 1]]).clone();
    }
    gen::gen_changes(rng, &mut plan, 8, true, 4);
    if plan.changes.is_empty() {
        plan.changes.push(ChangeEvent {
            at_ms: rng.below(200),
            names: gen::gen_names(rng, true, 3),
        });
    }
    gen::tame_net_for_big_plans(&mut plan);
    let long_quiet = rng.chance(1, 40);
    if long_quiet {
        gen::add_long_quiet(rng, &mut plan, &mut ids);
    }
    match rng.below(80) {
        0 | 1 => gen::slow_link(rng, &mut plan),
        2 => {
            gen::add_big_listing(rng, &mut plan);
        }
        _ => {}
    }
    if long_quiet || rng.chance(1, 2) {
        gen::retarget_changes(rng, &mut plan);
    }
    // the application's event loop has a ticker of its own: it waits for the next event only
    // until the next tick and then starts a new wait (unfinished `next()` futures are dropped)
    if rng.chance(1, 6) {
        plan.consumer = gen::ticking_consumer(rng, &plan);
    }
    // rarely: a flood of notifications while the application is not polling its receiver
    if rng.chance(1, 200) {
        let n = *rng.pick(&[1025usize, 1100, 2050]);
        let start = rng.below(50);
        plan.changes = (0..n)
            .map(|i| ChangeEvent {
                at_ms: start + i as u64,
                names: vec![crate::session::mpd::SUBSYSTEMS[i % 14].to_string()],
            })
            .collect();
        plan.net.s2c_mode = SegMode::Whole;
        plan.net.s2c_delay_ms = vec![0];
        plan.net.s2c_latency_ms = 0;
        plan.net.c2s_latency_ms = vec![0];
        plan.net.write_pending = vec![0];
        plan.net.write_chunk = vec![usize::MAX];
        plan.consumer = Consumer::StartAt(start + n as u64 + 500);
    }
    plan
}

impl Check for C04 {
    type Case = Plan;
    fn id(&self) -> &'static str {
        "C04"
    }
    fn level(&self) -> &'static str {
        "exploration"
    }
    fn budget(&self, tier: Tier) -> (u64, Duration) {
        match tier {
            Tier::Quick => (60_000, Duration::from_secs(120)),
            Tier::Thorough => (u64::MAX, Duration::from_secs(600)),
        }
    }
    fn run_index(&self, seed: u64, index: u64, _tier: Tier, ctx: &mut WorkerCtx<Plan>, known: &KnownFindings) {
        let mut rng = Rng::new(mix(seed, "C04", index));
        if index < gen::timing_sweep_len() {
            let plan = gen::timing_sweep_plan(index);
            ctx.about_to_eval(&plan);
            let (ev, out) = eval_with(&plan, oracle::check_c04, nt_c04);
            bump_probes(ctx, &plan, &out);
            ctx.counters.bump("timing_sweep_plans");
            ctx.record(&plan, ev, known);
            return;
        }
        let mut plan = gen_c04(&mut rng);
        // a quarter of the plans carry one transport fault: what was completely received before
        // it must still be delivered
        if rng.chance(1, 4) {
            let dry = gen::dry_run(&plan);
            plan.faults = vec![gen::gen_fault(&mut rng, &dry)];
            ctx.counters.bump("plans_with_fault");
        }
        ctx.about_to_eval(&plan);
        let (ev, out) = eval_with(&plan, oracle::check_c04, nt_c04);
        bump_probes(ctx, &plan, &out);
        ctx.counters.add("changes_reported", oracle::written_changes(&out).len() as u64);
        if ctx.want_sample() && index % 7 == 2 && out.events.len() >= 3 {
            ctx.sample(sample_of(&plan, &out));
        }
        ctx.record(&plan, ev, known);
    }
    fn eval(&self, case: &Plan) -> Eval {
        eval_with(case, oracle::check_c04, nt_c04).0
    }
    fn trace(&self, case: &Plan) -> Vec<String> {
        trace_plan(case, oracle::check_c04)
    }
    fn rule(&self) -> String {
        "run indexes below 11 754 are the systematic timing sweep described under C01 (same plans, \
         judged by this property's oracle); above that: one evaluation = one seeded notification-heavy plan (change events of 1-4 subsystems from \
         the 14 protocol names, unknown names and case variants, repeats; idle replies cut after \
         every LF / before the final OK / bytewise with 0-3 ms between segments so that enqueues \
         fall between segments; half of the plans re-targeted to actual instants); oracle: the \
         names delivered by ConnectionEvents equal the concatenation of all 'changed:' values the \
         simulated server wrote (prefix during the run, equality at quiescence); a quarter of the \
         plans additionally carry one transport fault (close, cut, reset, I/O error, garbage) placed \
         by a dry run, and then every change of an idle reply the client read completely before the \
         fault must still be delivered; distinct = distinct interleaving signature; non-trivial = \
         the server reported at least two changes".into()
    }
    fn probes(&self) -> Vec<&'static str> {
        SESSION_PROBES.to_vec()
    }
    fn fault_kinds(&self) -> Vec<&'static str> {
        vec!["close_clean", "cut", "read_err", "write_err", "reset", "garbage"]
    }
    session_check_common!();
}

// =============================================================================================
// C05

pub struct C05;

fn nt_c05(_p: &Plan, out: &RunOutput) -> bool {
    out.judge.units_started > 2
}

impl Check for C05 {
    type Case = Plan;
    fn id(&self) -> &'static str {
        "C05"
    }
    fn level(&self) -> &'static str {
        "exploration"
    }
    fn budget(&self, tier: Tier) -> (u64, Duration) {
        match tier {
            Tier::Quick => (60_000, Duration::from_secs(120)),
            Tier::Thorough => (u64::MAX, Duration::from_secs(600)),
        }
    }
    fn run_index(&self, seed: u64, index: u64, _tier: Tier, ctx: &mut WorkerCtx<Plan>, known: &KnownFindings) {
        let mut rng = Rng::new(mix(seed, "C05", index));
        if index < gen::timing_sweep_len() {
            let plan = gen::timing_sweep_plan(index);
            ctx.about_to_eval(&plan);
            let (ev, out) = eval_with(&plan, oracle::check_c05, nt_c05);
            bump_probes(ctx, &plan, &out);
            ctx.counters.bump("timing_sweep_plans");
            ctx.record(&plan, ev, known);
            return;
        }
        let mut plan = if rng.chance(1, 2) {
            fault_free_plan(&mut rng, &Workload::full(), 6, true, 3)
        } else {
            gen_c04(&mut rng)
        };
        // short writes that split lines and back-pressure are part of this property's space
        if rng.chance(1, 2) {
            plan.net.write_chunk = rng.pick(&[vec![1], vec![2, 5], vec![3], vec![4, 1, 9]]).clone();
        }
        if rng.chance(1, 4) {
            plan.net.write_pending = vec![1, 0, 2];
        }
        if rng.chance(1, 10) {
            plan.consumer = Consumer::DropAt(rng.below(300));
        }
        // sometimes notifications pile up while the application is not polling its receiver
        // (or never does): the connection must go on idling and serving requests all the same
        if rng.chance(1, 40) {
            ctx.counters.bump("rare.notifications_pile_up_unpolled");
            let n = *rng.pick(&[17usize, 33, 70, 130, 260]);
            let start = rng.below(50);
            plan.changes = (0..n)
                .map(|i| ChangeEvent {
                    at_ms: start + 2 * i as u64,
                    names: vec![crate::session::mpd::SUBSYSTEMS[i % 14].to_string()],
                })
                .collect();
            plan.consumer = if rng.chance(1, 2) {
                Consumer::StartAt(start + 2 * n as u64 + 500)
            } else {
                Consumer::Never
            };
        }
        gen::tame_net_for_big_plans(&mut plan);
        ctx.about_to_eval(&plan);
        let (ev, out) = eval_with(&plan, oracle::check_c05, nt_c05);
        bump_probes(ctx, &plan, &out);
        ctx.counters.add("client_lines_judged", out.judge.lines.len() as u64);
        if ctx.want_sample() && index % 7 == 2 && out.judge.lines.len() >= 6 {
            ctx.sample(sample_of(&plan, &out));
        }
        ctx.record(&plan, ev, known);
    }
    fn eval(&self, case: &Plan) -> Eval {
        eval_with(case, oracle::check_c05, nt_c05).0
    }
    fn trace(&self, case: &Plan) -> Vec<String> {
        trace_plan(case, oracle::check_c05)
    }
    fn rule(&self) -> String {
        "run indexes below 11 754 are the systematic timing sweep described under C01 (same plans, \
         judged by this property's oracle); above that: one evaluation = one seeded fault-free plan (C01 and C04 style workloads plus short writes \
         that split lines and write back-pressure); the simulated server and transport judge every \
         client write inline: J1 first command is idle and nothing precedes the greeting, J2 nothing \
         but noidle reaches a server waiting in idle, J3 no obliging line is started before every \
         earlier answer was completely read (at most one request outstanding, noidle reply \
         consumed), J4 every line tokenizes, J5 at quiescence the server is idling and a further \
         change comes out as an event; distinct = distinct interleaving signature; non-trivial = \
         more than two obliging units written".into()
    }
    fn probes(&self) -> Vec<&'static str> {
        SESSION_PROBES.to_vec()
    }
    session_check_common!();
}

// =============================================================================================
// C08

pub struct C08;

fn nt_c08(_p: &Plan, out: &RunOutput) -> bool {
    !out.faults_fired.is_empty() || out.endpoint_dropped.is_some()
}

/// Small base scenarios for the systematic fault sweep.
pub fn sweep_bases() -> Vec<Plan> {
    let mut bases = Vec::new();
    let shape = |fields, value_len, binary: Option<u32>, fail: Option<u64>, delay_ms| ReplyShape {
        fields,
        value_len,
        binary,
        fail,
        delay_ms,
        partial_fields: if fail.is_some() { 1 } else { 0 },
        distinct_keys: false,
    };
    let scripts: Vec<(Vec<Vec<Op>>, Vec<ChangeEvent>, Vec<(u64, ReplyShape)>, bool)> = vec![
        (vec![vec![Op::Request { id: 1 }]], vec![], vec![(1, shape(0, 0, None, None, 0))], true),
        (
            vec![vec![Op::Request { id: 1 }]],
            vec![],
            vec![(1, shape(2, 5, Some(6), None, 2))],
            true,
        ),
        (
            vec![vec![Op::List { ids: vec![1, 2, 3] }]],
            vec![],
            vec![(1, shape(1, 2, None, None, 0)), (2, shape(0, 0, None, Some(50), 0)), (3, shape(0, 0, None, None, 0))],
            true,
        ),
        (
            vec![vec![Op::Request { id: 1 }], vec![Op::Request { id: 2 }]],
            vec![],
            vec![(1, shape(1, 3, None, None, 3)), (2, shape(0, 0, None, None, 0))],
            true,
        ),
        (
            vec![vec![Op::Request { id: 1 }, Op::Think { ms: 150 }, Op::Request { id: 2 }]],
            vec![],
            vec![(1, shape(0, 0, None, None, 0)), (2, shape(1, 1, None, None, 0))],
            true,
        ),
        (
            vec![vec![Op::Think { ms: 20 }, Op::Request { id: 1 }]],
            vec![ChangeEvent { at_ms: 5, names: vec!["player".into(), "mixer".into()] }],
            vec![(1, shape(0, 0, None, None, 0))],
            true,
        ),
        (
            vec![vec![Op::Burst {
                ops: vec![Op::Request { id: 1 }, Op::Request { id: 2 }, Op::List { ids: vec![3, 4] }],
            }]],
            vec![],
            vec![(1, shape(0, 0, None, None, 1)), (2, shape(1, 1, None, None, 0)), (3, shape(0, 0, None, None, 0)), (4, shape(0, 0, None, None, 0))],
            true,
        ),
        (
            vec![vec![Op::Cancel { op: Box::new(Op::Request { id: 1 }), after_ms: 1 }, Op::Request { id: 2 }]],
            vec![],
            vec![(1, shape(0, 0, None, None, 5)), (2, shape(0, 0, None, None, 0))],
            true,
        ),
        (
            vec![vec![Op::Request { id: 1 }]],
            vec![ChangeEvent { at_ms: 2, names: vec!["update".into()] }],
            vec![(1, shape(1, 1, None, None, 4))],
            true,
        ),
        (
            vec![vec![Op::Request { id: 1 }, Op::DropHandle], vec![Op::Think { ms: 1 }, Op::Request { id: 2 }, Op::DropHandle]],
            vec![],
            vec![(1, shape(0, 0, None, None, 1)), (2, shape(0, 0, None, None, 1))],
            false,
        ),
        (
            vec![vec![Op::Request { id: 1 }], vec![Op::Request { id: 2 }], vec![Op::Typed { id: 3 }]],
            vec![],
            vec![(1, shape(0, 0, None, None, 2)), (2, shape(0, 0, None, Some(5), 0)), (3, shape(2, 2, None, None, 0))],
            true,
        ),
        (
            vec![vec![Op::Think { ms: 30 }]],
            vec![ChangeEvent { at_ms: 10, names: vec!["database".into()] }],
            vec![],
            true,
        ),
        (
            vec![vec![Op::AlbumArt { uri: "a/b.mp3".into() }]],
            vec![],
            vec![],
            true,
        ),
        // a request enqueued between the segments of an idle reply (line-wise delivery, 1 ms
        // apart): the interrupted receive() resumes a parked partial response
        (
            vec![vec![Op::Think { ms: 6 }, Op::Request { id: 1 }]],
            vec![ChangeEvent { at_ms: 5, names: vec!["player".into(), "mixer".into()] }],
            vec![(1, shape(1, 1, None, None, 1))],
            true,
        ),
        (
            vec![vec![Op::Think { ms: 7 }, Op::Cancel { op: Box::new(Op::Request { id: 1 }), after_ms: 0 }, Op::Request { id: 2 }]],
            vec![ChangeEvent { at_ms: 5, names: vec!["player".into(), "mixer".into(), "update".into()] }],
            vec![(1, shape(0, 0, None, None, 0)), (2, shape(0, 0, None, None, 0))],
            true,
        ),
    ];
    let nets: Vec<NetPolicy> = vec![
        NetPolicy::default(),
        NetPolicy {
            s2c_mode: SegMode::Lines,
            s2c_delay_ms: vec![1],
            // the FIN trails the data by 2 ms: an end of stream can arrive after a request has
            // interrupted the receive that had read the last bytes
            eof_delay_ms: 2,
            ..NetPolicy::default()
        },
        NetPolicy {
            s2c_mode: SegMode::Sizes(vec![1]),
            c2s_latency_ms: vec![1],
            write_chunk: vec![3],
            ..NetPolicy::default()
        },
    ];
    for (si, (callers, changes, shapes, keep)) in scripts.iter().enumerate() {
        for (ni, net) in nets.iter().enumerate() {
            for seed in 0..2u64 {
                let mut p = Plan::empty(seed + 10 * (si as u64) + 100 * (ni as u64));
                p.callers = callers.clone();
                p.changes = changes.clone();
                for (id, s) in shapes {
                    p.replies.insert(*id, s.clone());
                }
                p.keep_main_handle = *keep;
                p.net = net.clone();
                p.binary_limit = 4;
                p.pictures = vec![Picture {
                    uri: "a/b.mp3".into(),
                    embedded: Some(Embedded {
                        data: b"0123456789".to_vec(),
                        mime: Some("image/png".into()),
                    }),
                    cover: Cover::NoneAck,
                    readpicture_unknown: false,
                    readpicture_error: None,
                    albumart_error: None,
                    later_error: None,
                    chunk_caps: Vec::new(),
                    header_before_error: false,
                    mime_only_first_chunk: false,
                    embedded_vanishes_at: None,
                }];
                bases.push(p);
            }
        }
    }
    bases
}

impl C08 {
    fn sweep(&self, base: &Plan, ctx: &mut WorkerCtx<Plan>, known: &KnownFindings) {
        let dry = gen::dry_run(base);
        ctx.counters.bump("sweep_bases");
        let mut faults: Vec<Fault> = Vec::new();
        for off in dry.greeting_end..=dry.s2c_len {
            faults.push(Fault { kind: FaultKind::Cut, trigger: Trigger::AtS2cOffset(off) });
            faults.push(Fault {
                kind: FaultKind::Garbage(b"\xff\n\xff\n".to_vec()),
                trigger: Trigger::AtS2cOffset(off),
            });
            faults.push(Fault {
                kind: FaultKind::ReadErr("ConnectionReset".into()),
                trigger: Trigger::AtS2cOffset(off),
            });
            faults.push(Fault {
                kind: FaultKind::ReadErr("UnexpectedEof".into()),
                trigger: Trigger::AtS2cOffset(off),
            });
        }
        for k in 0..=dry.writes {
            faults.push(Fault { kind: FaultKind::WriteErr("BrokenPipe".into()), trigger: Trigger::AtWrite(k) });
            faults.push(Fault { kind: FaultKind::Reset, trigger: Trigger::AtWrite(k) });
        }
        for n in 0..=dry.responses {
            faults.push(Fault { kind: FaultKind::CloseClean, trigger: Trigger::AfterResponse(n) });
        }
        for n in 0..=dry.responses {
            faults.push(Fault { kind: FaultKind::IdleDenied(4), trigger: Trigger::AfterResponse(n) });
        }
        for t in dry.instants.iter().take(60) {
            faults.push(Fault { kind: FaultKind::IdleDenied(4), trigger: Trigger::AtTime(*t) });
            faults.push(Fault { kind: FaultKind::CloseClean, trigger: Trigger::AtTime(*t) });
            faults.push(Fault { kind: FaultKind::Reset, trigger: Trigger::AtTime(*t) });
        }
        for f in faults {
            let mut plan = base.clone();
            plan.faults = vec![f];
            ctx.about_to_eval(&plan);
            let (ev, out) = eval_with(&plan, oracle::check_c08, nt_c08);
            bump_probes(ctx, &plan, &out);
            ctx.counters.bump("sweep_runs");
            ctx.record(&plan, ev, known);
        }
    }
}

fn gen_c08(rng: &mut Rng) -> Plan {
    let mut w = Workload::full();
    w.drops = rng.chance(1, 4);
    w.big_replies = rng.chance(1, 5);
    w.max_ops = 5;
    let mut plan = gen::base_plan(rng);
    let mut ids = Ids(0);
    gen::gen_workload(rng, &mut plan, &mut ids, &w);
    plan.net = gen::gen_net(rng);
    gen::tame_net_for_big_plans(&mut plan);
    gen::gen_changes(rng, &mut plan, 3, false, 2);
    if rng.chance(1, 8) {
        plan.consumer = Consumer::DropAt(rng.below(200));
    } else if rng.chance(1, 10) {
        plan.consumer = gen::ticking_consumer(rng, &plan);
    }
    if w.drops && rng.chance(1, 2) {
        plan.keep_main_handle = false;
    }
    if rng.chance(1, 6) {
        // an album-art caller in the mix
        let limit = *rng.pick(&[3usize, 16, 100]);
        plan.binary_limit = limit;
        plan.pictures = vec![gen::gen_picture(rng, "art/x.flac".into(), limit)];
        plan.callers.push(vec![Op::AlbumArt { uri: "art/x.flac".into() }]);
    }
    if rng.chance(9, 10) {
        let dry = gen::dry_run(&plan);
        plan.faults = vec![gen::gen_fault(rng, &dry)];
    }
    // rarely: the transport breaks during a long quiet stretch (10 s - 1 h without any request).
    // Nothing is written meanwhile by the code as it stands, so the failure is met by the
    // request that ends the stretch (write side) or by the pending idle read (both sides); a
    // client with traffic of its own on a long timer meets it there, with no caller in hand.
    if rng.chance(1, 30) {
        let mut ids = Ids(50_000);
        gen::add_long_quiet(rng, &mut plan, &mut ids);
        let quiet = plan
            .callers
            .last()
            .and_then(|c| match c.first() {
                Some(Op::Think { ms }) => Some(*ms),
                _ => None,
            })
            .unwrap_or(10_500);
        let busy = gen::rough_span(&Plan { callers: plan.callers[..plan.callers.len() - 1].to_vec(), ..plan.clone() });
        let at = busy + 1_000 + rng.below(quiet.saturating_sub(busy + 2_000).max(1));
        let kind = match rng.below(4) {
            0 | 1 => FaultKind::WriteErr((*rng.pick(&["BrokenPipe", "ConnectionReset", "TimedOut"])).to_string()),
            2 => FaultKind::Reset,
            _ => FaultKind::ReadErr("ConnectionReset".into()),
        };
        plan.faults = vec![Fault { kind, trigger: Trigger::AtTime(at) }];
    }
    // rarely: the application has fallen behind with its notifications (dozens to hundreds
    // unread) when the connection fails while idle; once it catches up it must find every
    // change and then the closing event — the only place this failure can surface
    if rng.chance(1, 40) {
        let n = *rng.pick(&[33usize, 40, 64, 130, 300]);
        let start = rng.below(30);
        plan.changes = (0..n)
            .map(|i| ChangeEvent {
                at_ms: start + i as u64,
                names: vec![crate::session::mpd::SUBSYSTEMS[i % 14].to_string()],
            })
            .collect();
        if rng.chance(1, 2) {
            plan.callers.clear();
            plan.pictures.clear();
        }
        plan.net = NetPolicy::default();
        let at = start + n as u64 + gen::rough_span(&plan) + rng.below(100);
        let kind = match rng.below(4) {
            0 => FaultKind::Cut,
            1 => FaultKind::ReadErr("ConnectionReset".into()),
            2 => FaultKind::Reset,
            _ => FaultKind::ReadErr("UnexpectedEof".into()),
        };
        plan.faults = vec![Fault { kind, trigger: Trigger::AtTime(at) }];
        plan.consumer = Consumer::StartAt(at + 500);
        plan.keep_main_handle = true;
    }
    plan
}

impl Check for C08 {
    type Case = Plan;
    fn id(&self) -> &'static str {
        "C08"
    }
    fn level(&self) -> &'static str {
        "fault_enumeration"
    }
    fn budget(&self, tier: Tier) -> (u64, Duration) {
        match tier {
            Tier::Quick => (100_000, Duration::from_secs(120)),
            Tier::Thorough => (u64::MAX, Duration::from_secs(600)),
        }
    }
    fn run_index(&self, seed: u64, index: u64, tier: Tier, ctx: &mut WorkerCtx<Plan>, known: &KnownFindings) {
        let bases = sweep_bases();
        let _ = tier;
        if (index as usize) < bases.len() {
            // both tiers sweep every base scenario; thorough differs in the random part
            self.sweep(&bases[index as usize], ctx, known);
            return;
        }
        let mut rng = Rng::new(mix(seed, "C08", index));
        let plan = gen_c08(&mut rng);
        if plan.changes.len() >= 32 && matches!(plan.consumer, Consumer::StartAt(_)) {
            ctx.counters.bump("failure_with_unread_notification_backlog");
        }
        ctx.about_to_eval(&plan);
        let (ev, out) = eval_with(&plan, oracle::check_c08, nt_c08);
        bump_probes(ctx, &plan, &out);
        if ctx.want_sample() && index % 7 == 2 && !out.faults_fired.is_empty() {
            ctx.sample(sample_of(&plan, &out));
        }
        ctx.record(&plan, ev, known);
    }
    fn eval(&self, case: &Plan) -> Eval {
        eval_with(case, oracle::check_c08, nt_c08).0
    }
    fn trace(&self, case: &Plan) -> Vec<String> {
        trace_plan(case, oracle::check_c08)
    }
    fn rule(&self) -> String {
        "fault enumeration + seeded search. Sweep (both tiers, all 90 base scenarios): for each small base scenario (15 scripts x 3 \
         network policies x 2 tokio seeds) a fault-free dry run fixes the server output length L, \
         the number of client writes W, the responses R and the instants of activity; then EVERY \
         server-output offset in [greeting_end, L] x {Cut, Garbage, ReadErr}, EVERY client write \
         index 0..=W x {WriteErr, Reset}, CloseClean and IdleDenied (server refuses idle with an ACK) after every response and \
         CloseClean/Reset/IdleDenied at every instant is executed. Random: seeded plans (1-4 callers, lists, bursts, cancels, \
         handle drops, dropped event receiver, optional album-art caller) with one fault placed by \
         a dry run inside an operation. Oracle R1-R7 at quiescence. distinct = distinct \
         interleaving signature; non-trivial = a fault actually fired (or the transport was \
         released)".into()
    }
    fn probes(&self) -> Vec<&'static str> {
        vec![
            "fault_in_state.idle",
            "fault_in_state.noidle_wait",
            "fault_in_state.in_flight",
            "fault_in_state.window",
            "sweep_bases",
            "noidle_race",
            "cancel_in_flight_or_sent",
        ]
    }
    fn fault_kinds(&self) -> Vec<&'static str> {
        vec!["close_clean", "cut", "read_err", "write_err", "reset", "garbage", "idle_denied"]
    }
    session_check_common!();
}

// =============================================================================================
// C17

pub struct C17;

fn nt_c17(_p: &Plan, out: &RunOutput) -> bool {
    out.ops.iter().any(|o| o.kind == "album_art" && o.return_seq.is_some())
}

fn gen_c17(rng: &mut Rng) -> Plan {
    let mut plan = gen::base_plan(rng);
    let limit = match rng.below(8) {
        0 => 1,
        1 => 2,
        2 => rng.urange(3, 16),
        3 => rng.urange(17, 300),
        4 => 4096,
        5 => 8192,
        6 => 16384,
        _ => rng.urange(300, 5000),
    };
    plan.binary_limit = limit;
    let nart = *rng.pick_weighted(&[(5, 1usize), (2, 2), (1, 3)]);
    for i in 0..nart {
        let uri = format!("art/{}{}.mp3", (b'a' + i as u8) as char, rng.below(100));
        plan.pictures.push(gen::gen_picture(rng, uri.clone(), limit));
        let mut script = Vec::new();
        if rng.chance(1, 2) {
            script.push(Op::Think { ms: rng.below(5) });
        }
        script.push(Op::AlbumArt { uri });
        // sometimes a second picture is loaded afterwards by the same caller
        if rng.chance(1, 3) {
            let uri2 = format!("art/{}{}x.ogg", (b'a' + i as u8) as char, rng.below(100));
            plan.pictures.push(gen::gen_picture(rng, uri2.clone(), limit));
            if rng.chance(1, 2) {
                script.push(Op::Think { ms: rng.below(120) });
            }
            script.push(Op::AlbumArt { uri: uri2 });
        }
        plan.callers.push(script);
    }
    // ordinary callers and notifications alongside
    if rng.chance(1, 2) {
        let mut ids = Ids(0);
        let mut w = Workload::full();
        w.max_callers = 2;
        w.max_ops = 4;
        w.big_replies = false;
        gen::gen_workload(rng, &mut plan, &mut ids, &w);
    }
    plan.net = gen::gen_net(rng);
    if rng.chance(1, 2) {
        gen::gen_changes(rng, &mut plan, 4, false, 2);
    }
    // rarely: a cover grid — dozens of pictures requested at once through clones of one
    // client (33-130 callers, one small picture each, two to four chunks)
    if rng.chance(1, 150) {
        let n = *rng.pick(&[33usize, 40, 65, 130]);
        let limit = *rng.pick(&[16usize, 100, 1000]);
        plan.binary_limit = limit;
        plan.pictures.clear();
        plan.callers.clear();
        for i in 0..n {
            let uri = format!("grid/{}.flac", i);
            let size = limit * rng.urange(1, 3) + rng.urange(0, 5);
            let data = rng.bytes(size);
            plan.pictures.push(Picture {
                uri: uri.clone(),
                embedded: if i % 3 == 0 {
                    None
                } else {
                    Some(Embedded { data: data.clone(), mime: if i % 2 == 0 { Some("image/jpeg".into()) } else { None } })
                },
                cover: Cover::Bytes(data),
                readpicture_unknown: false,
                readpicture_error: None,
                albumart_error: None,
                later_error: None,
                chunk_caps: Vec::new(),
                header_before_error: false,
                mime_only_first_chunk: false,
                embedded_vanishes_at: None,
            });
            plan.callers.push(vec![Op::AlbumArt { uri }]);
        }
        plan.net = NetPolicy::default();
        plan.net.s2c_latency_ms = *rng.pick(&[0u32, 1, 3]);
    }
    // rarely: megabyte chunks and a picture beyond the sizes someone might cap at (1 MiB, 16 MiB)
    if rng.chance(1, 400) {
        let (limit, size) = *rng.pick(&[
            (1_500_000usize, 2_200_000usize),
            (4 << 20, 5_000_000),
            (8 << 20, 17_000_001),
        ]);
        plan.binary_limit = limit;
        plan.net = NetPolicy::default();
        let uri = "art/giant.flac".to_string();
        let data: Vec<u8> = (0..size).map(|i| (i as u32).wrapping_mul(2654435761).to_le_bytes()[3]).collect();
        plan.pictures.push(Picture {
            uri: uri.clone(),
            embedded: if rng.chance(1, 2) {
                Some(Embedded { data: data.clone(), mime: Some("image/png".into()) })
            } else {
                None
            },
            cover: Cover::Bytes(data),
            readpicture_unknown: false,
            readpicture_error: None,
            albumart_error: None,
            later_error: None,
            chunk_caps: Vec::new(),
            header_before_error: false,
            mime_only_first_chunk: false,
            embedded_vanishes_at: None,
        });
        plan.callers.push(vec![Op::AlbumArt { uri }]);
    }
    // rarely the embedded picture disappears while it is being read (the file was retagged):
    // a later `readpicture` answers with a bare `OK`. Whatever the client makes of that — absence,
    // an error, the complete cover file — it must not hand out bytes stitched together from two
    // pictures. Only where the transfer needs more than one chunk and no error is forced.
    if rng.chance(1, 12) {
        let limit = plan.binary_limit.max(1) as u64;
        for pic in plan.pictures.iter_mut() {
            let multi = pic.embedded.as_ref().map(|e| e.data.len() as u64 > limit).unwrap_or(false);
            if multi
                && !pic.readpicture_unknown
                && pic.readpicture_error.is_none()
                && pic.later_error.is_none()
                && pic.chunk_caps.is_empty()
            {
                pic.embedded_vanishes_at = Some(*rng.pick(&[1u64, limit, limit + 1, 2 * limit]));
            }
        }
    }
    // nobody listens for notifications (`let (client, _) = connect(..)`, which the documentation
    // allows): loading pictures must work all the same
    if !plan.changes.is_empty() && rng.chance(1, 5) {
        plan.consumer = Consumer::DropAt(rng.below(40));
    }
    plan
}

impl Check for C17 {
    type Case = Plan;
    fn id(&self) -> &'static str {
        "C17"
    }
    fn level(&self) -> &'static str {
        "exploration"
    }
    fn budget(&self, tier: Tier) -> (u64, Duration) {
        match tier {
            Tier::Quick => (80_000, Duration::from_secs(120)),
            Tier::Thorough => (u64::MAX, Duration::from_secs(600)),
        }
    }
    fn run_index(&self, seed: u64, index: u64, _tier: Tier, ctx: &mut WorkerCtx<Plan>, known: &KnownFindings) {
        let mut rng = Rng::new(mix(seed, "C17", index));
        let plan = gen_c17(&mut rng);
        if plan.callers.len() >= 33 {
            ctx.counters.bump("art.cover_grid_33_or_more_concurrent_pictures");
        }
        ctx.about_to_eval(&plan);
        let (ev, out) = eval_with(&plan, oracle::check_c17, nt_c17);
        for pic in &plan.pictures {
            match oracle::expect_art(pic, plan.binary_limit) {
                oracle::ArtExpect::Some(b, _) => {
                    ctx.counters.bump("art.some");
                    if b.len() > plan.binary_limit {
                        ctx.counters.bump("art.multi_chunk");
                    }
                    if b.is_empty() {
                        ctx.counters.bump("art.size_zero");
                    }
                    if b.len() % plan.binary_limit.max(1) != 0 {
                        ctx.counters.bump("art.size_not_multiple_of_limit");
                    }
                    if b.windows(3).any(|w| w == b"OK\n") {
                        ctx.counters.bump("binary_contains_protocol_lines");
                    }
                    if b.len() > 4096 {
                        ctx.counters.bump("art.larger_than_receive_buffer");
                    }
                }
                oracle::ArtExpect::None => ctx.counters.bump("art.none"),
                oracle::ArtExpect::Err(_) => ctx.counters.bump("art.error"),
            }
            if oracle::art_uses_fallback(pic) {
                ctx.counters.bump("art.fallback");
            }
            if pic.embedded_vanishes_at.is_some() {
                ctx.counters.bump("art.embedded_vanishes_mid_transfer");
            }
        }
        bump_probes(ctx, &plan, &out);
        if ctx.want_sample() && index % 7 == 2 {
            ctx.sample(sample_of(&plan, &out));
        }
        ctx.record(&plan, ev, known);
    }
    fn eval(&self, case: &Plan) -> Eval {
        eval_with(case, oracle::check_c17, nt_c17).0
    }
    fn trace(&self, case: &Plan) -> Vec<String> {
        trace_plan(case, oracle::check_c17)
    }
    fn rule(&self) -> String {
        "one evaluation = one seeded plan with 1-3 concurrent album_art calls on distinct URIs \
         (picture store: embedded picture with/without MIME, cover as bytes / bare OK / ACK 50, \
         readpicture unknown to the server, forced error codes; sizes 0, 1, limit-1, limit, limit+1, \
         k*limit(+-1), > 4096*2^j; chunk limits 1..16384; payloads with protocol-looking lines), \
         optionally ordinary callers and notifications, random network policy; oracle: result \
         equals a reference function over the store and the server transcript shows readpicture \
         first, cover-file command iff fallback, strictly increasing offsets from 0, bounded \
         request count; distinct = distinct interleaving signature; non-trivial = an album_art call \
         returned".into()
    }
    fn probes(&self) -> Vec<&'static str> {
        vec![
            "art.some",
            "art.none",
            "art.error",
            "art.fallback",
            "art.multi_chunk",
            "art.size_zero",
            "art.size_not_multiple_of_limit",
            "art.larger_than_receive_buffer",
            "binary_contains_protocol_lines",
            "rare.megabyte_chunks_giant_picture",
        ]
    }
    fn assumptions(&self) -> Vec<String> {
        let mut a = session_assumptions();
        a.push("honest server: every chunk request below 'size' returns at least one byte".into());
        a
    }
    fn shrink(&self, case: &Plan) -> Vec<Plan> {
        gen::shrink_plan(case)
    }
    fn components(&self) -> (Vec<String>, Vec<String>) {
        session_components()
    }
}

// =============================================================================================
// C18

#[derive(Clone, Debug, Serialize, Deserialize)]
pub enum C18Case {
    Greeting(WireCase),
    Password(Plan),
}

pub struct C18;

fn nt_true(_p: &Plan, _o: &RunOutput) -> bool {
    true
}

fn gen_c18b(rng: &mut Rng) -> Plan {
    let mut plan = gen::base_plan(rng);
    let with_pw = rng.chance(5, 6);
    if with_pw {
        let alphabet = b"abcdefghijklmnopqrstuvwxyzABCDEFGHIJKLMNOPQRSTUVWXYZ0123456789-_.:/+=";
        let len = rng.urange(1, 24);
        let mut password: String = (0..len).map(|_| *rng.pick(alphabet) as char).collect();
        // blanks inside the password: sent quoted, must come out of the server's tokenizer
        // verbatim (quotes and backslashes are left out: their escaping is property C06's matter)
        if len >= 3 && rng.chance(1, 3) {
            let at = rng.urange(1, len - 2);
            password.replace_range(at..at + 1, if rng.chance(1, 4) { "\t" } else { " " });
        }
        let verdict = match rng.below(8) {
            0..=2 => PwVerdict::Accept,
            3 | 4 => PwVerdict::Reject(*rng.pick(&[3u64, 3, 4, 2, 5, 50, 0])),
            5 => PwVerdict::Close(rng.usize_below(3)),
            6 => PwVerdict::Close(0),
            _ => PwVerdict::Garbage,
        };
        plan.password = Some(PasswordPlan {
            password,
            verdict,
            via_opt: rng.chance(1, 3),
        });
    } else {
        plan.connect_via_opt = rng.chance(1, 2);
    }
    plan.net = gen::gen_net(rng);
    // a slow server (busy, starting up, far away): the greeting and the verdict on the password
    // take seconds to minutes; a valid greeting is a valid greeting whenever it arrives
    if rng.chance(1, 15) {
        plan.handshake_delay_ms = *rng.pick(&[1_500u32, 5_500, 10_500, 31_000, 61_000, 125_000, 601_000]);
    }
    // the handshake is over once the greeting (and the server's verdict on the password) has
    // been received; what happens to the transport afterwards belongs to the session, not to
    // connecting. In a share of the plans the write side breaks at that very moment — the
    // greeting was valid and arrives completely, the password was accepted — so connecting
    // must still succeed (and the failure shows up in the session).
    let accepted = match &plan.password {
        None => true,
        Some(p) => p.verdict == PwVerdict::Accept,
    };
    if accepted && rng.chance(1, 6) {
        let kind = (*rng.pick(&["BrokenPipe", "ConnectionReset", "ConnectionAborted", "TimedOut"])).to_string();
        let trigger = if plan.password.is_some() {
            Trigger::AfterResponse(0)
        } else {
            Trigger::AtS2cOffset(format!("OK MPD {}\n", plan.version).len())
        };
        plan.faults.push(Fault {
            kind: FaultKind::WriteErr(kind),
            trigger,
        });
    }
    // a little workload after the handshake
    if rng.chance(2, 3) {
        let mut ids = Ids(0);
        let mut w = Workload::full();
        w.max_callers = 2;
        w.max_ops = 3;
        w.big_replies = false;
        gen::gen_workload(rng, &mut plan, &mut ids, &w);
        // callers start at once: requests are queued while the handshake is still running
        gen::gen_changes(rng, &mut plan, 2, false, 2);
    }
    plan
}

impl Check for C18 {
    type Case = C18Case;
    fn id(&self) -> &'static str {
        "C18"
    }
    fn level(&self) -> &'static str {
        "exploration"
    }
    fn budget(&self, tier: Tier) -> (u64, Duration) {
        match tier {
            Tier::Quick => (100_000, Duration::from_secs(120)),
            Tier::Thorough => (u64::MAX, Duration::from_secs(600)),
        }
    }
    fn run_index(&self, seed: u64, index: u64, _tier: Tier, ctx: &mut WorkerCtx<C18Case>, known: &KnownFindings) {
        let mut rng = Rng::new(mix(seed, "C18", index));
        if index % 2 == 0 {
            wire_checks::run_greeting_index(&mut rng, ctx, known, C18Case::Greeting);
        } else {
            let plan = gen_c18b(&mut rng);
            ctx.about_to_eval(&C18Case::Password(plan.clone()));
            let (ev, out) = eval_with(&plan, oracle::check_c18b, nt_true);
            match &plan.password {
                None => ctx.counters.bump("password.none"),
                Some(p) => ctx.counters.bump(&format!(
                    "password.{}",
                    match p.verdict {
                        PwVerdict::Accept => "accept",
                        PwVerdict::Reject(_) => "reject",
                        PwVerdict::Close(0) => "close_on_boundary",
                        PwVerdict::Close(_) => "close_mid_line",
                        PwVerdict::Garbage => "garbage",
                    }
                )),
            }
            if ctx.want_sample() && index % 9 == 3 {
                ctx.sample(sample_of(&plan, &out));
            }
            ctx.record(&C18Case::Password(plan), ev, known);
        }
    }
    fn eval(&self, case: &C18Case) -> Eval {
        match case {
            C18Case::Greeting(w) => wire_checks::eval_greeting(w),
            C18Case::Password(p) => eval_with(p, oracle::check_c18b, nt_true).0,
        }
    }
    fn shrink(&self, case: &C18Case) -> Vec<C18Case> {
        match case {
            C18Case::Greeting(w) => wire_checks::shrink_greeting(w)
                .into_iter()
                .map(C18Case::Greeting)
                .collect(),
            C18Case::Password(p) => {
                let mut v: Vec<C18Case> = gen::shrink_plan(p).into_iter().map(C18Case::Password).collect();
                if let Some(pw) = &p.password {
                    if pw.password.len() > 1 {
                        let mut q = p.clone();
                        q.password = Some(PasswordPlan {
                            password: pw.password[..1].to_string(),
                            ..pw.clone()
                        });
                        v.push(C18Case::Password(q));
                    }
                }
                v
            }
        }
    }
    fn trace(&self, case: &C18Case) -> Vec<String> {
        match case {
            C18Case::Greeting(w) => wire_checks::trace_greeting(w),
            C18Case::Password(p) => trace_plan(p, oracle::check_c18b),
        }
    }
    fn rule(&self) -> String {
        "even run indexes: greeting strings (valid with arbitrary LF-free UTF-8 versions incl. blanks, \
         CR, > 4096/8192 bytes; wrong prefix at each position; empty version; invalid UTF-8; \
         unterminated) x every split point (<= 64 B) / sampled splits, bytewise, cyclic patterns x \
         both connection flavours against a reference grammar. Odd run indexes: full client \
         connect / connect_with_password(_opt) against SimMpd with verdicts OK / ACK any code / \
         close on boundary / close mid-line / garbage, arbitrary segmentation, callers queued during \
         the handshake; oracle: password first and verbatim, no idle before the server's OK was \
         read, IncorrectPassword on ACK with nothing further ever written and the transport \
         released, protocol error on close/garbage, legal session afterwards. distinct = distinct \
         (verdict class, size bucket, segmentation, flavour) resp. interleaving signature".into()
    }
    fn assumptions(&self) -> Vec<String> {
        let mut a = session_assumptions();
        a.push("passwords come from the unreserved alphabet".into());
        a.push("unterminated and already malformed greetings may yield either error".into());
        a
    }
    fn components(&self) -> (Vec<String>, Vec<String>) {
        let (mut r, s) = session_components();
        r.push("mpd_protocol::Connection::connect / AsyncConnection::connect for the greeting half — real".into());
        (r, s)
    }
    fn probes(&self) -> Vec<&'static str> {
        vec![
            "greeting.valid",
            "greeting.invalid_utf8",
            "greeting.unterminated_valid_prefix",
            "greeting_longer_than_4096",
            "greeting_longer_than_8192",
            "password.accept",
            "password.reject",
            "password.close_on_boundary",
            "password.close_mid_line",
            "password.garbage",
            "password.none",
        ]
    }
    fn fault_kinds(&self) -> Vec<&'static str> {
        vec![]
    }
}
