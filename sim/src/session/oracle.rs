//! Oracles of the session engine: history checks over a `RunOutput` (C01, C04, C08, C17, C18b) and
//! the verdicts of the inline judge (C05).

use crate::canon::{clip, Terminal};
use crate::framework::Violation;
use crate::session::mpd::{IdleTrigger, RespKind, UnitRecord};
use crate::session::net::Ev;
use crate::session::plan::{Consumer, Cover, Op, Picture, Plan, PwVerdict};
use crate::session::run::{ConnectOutcome, EventRec, OpRecord, OpResult, RunOutput, PROBE_ID};

/// A crashed run loop answers nobody: a panic in library code violates whatever is checked.
pub fn panic_violation(prop: &str, out: &RunOutput) -> Option<Violation> {
    if let Some(p) = out.panics.first() {
        let clause = if p.starts_with("BUDGET") { "spin" } else { "panic" };
        return Some(Violation::new(prop, clause, format!("during the run: {}", p)).tag("panic"));
    }
    None
}

fn unit_for<'a>(out: &'a RunOutput, op: &OpRecord) -> Option<&'a UnitRecord> {
    let first = format!("req {}", op.ids.first()?);
    out.units.iter().find(|u| u.lines.first() == Some(&first))
}

/// What the caller of `op` must get if the server's reply `unit` reaches it.
pub fn expected_result(op: &OpRecord, unit: &UnitRecord) -> OpResult {
    let single = matches!(op.kind, "request" | "typed");
    match (&unit.reply.error, single) {
        (Some(e), true) => OpResult::ErrResponse {
            err: e.clone(),
            frames: Vec::new(),
        },
        (Some(e), false) => OpResult::ErrResponse {
            err: e.clone(),
            frames: unit.reply.frames.clone(),
        },
        (None, true) => OpResult::Frame(unit.reply.frames.first().cloned().unwrap_or_default()),
        (None, false) => OpResult::Frames(unit.reply.frames.clone()),
    }
}

fn describe_op(op: &OpRecord) -> String {
    format!(
        "caller {} op #{}{} {}{:?}",
        if op.caller == usize::MAX {
            "probe".to_string()
        } else {
            op.caller.to_string()
        },
        if op.op == usize::MAX { 0 } else { op.op },
        if op.sub > 0 {
            format!(".{}", op.sub)
        } else {
            String::new()
        },
        op.kind,
        op.ids
    )
}

fn result_mentions_foreign_id(op: &OpRecord, r: &OpResult) -> bool {
    let check = |f: &crate::canon::CFrame| -> bool {
        match f.fields.iter().find(|(k, _)| k == "id") {
            Some((_, v)) => !op.ids.iter().any(|i| i.to_string() == *v),
            None => true,
        }
    };
    match r {
        OpResult::Frame(f) => check(f),
        OpResult::Frames(fs) => fs.iter().any(check),
        _ => false,
    }
}

// =============================================================================================
// C01

pub fn check_c01(plan: &Plan, out: &RunOutput) -> Option<Violation> {
    if let Some(v) = panic_violation("C01", out) {
        return Some(v);
    }
    if !matches!(out.connect, ConnectOutcome::Ok(_)) {
        return Some(Violation::new(
            "C01",
            "connect",
            format!("connect failed on a fault-free session: {:?}", out.connect),
        ));
    }
    let mut ops: Vec<&OpRecord> = out.ops.iter().filter(|o| o.kind != "album_art").collect();
    if let Some(p) = &out.probe_request {
        ops.push(p);
    }
    // (a) completion
    for op in &ops {
        if op.result == OpResult::Hung || (!out.callers_all_done && op.return_seq.is_none()) {
            return Some(Violation::new(
                "C01",
                "request_never_resolved",
                format!("{} never resolved", describe_op(op)),
            ));
        }
    }
    // (b) own reply
    for op in &ops {
        if op.result == OpResult::Cancelled {
            continue;
        }
        let Some(unit) = unit_for(out, op) else {
            return Some(Violation::new(
                "C01",
                "resolved_without_reaching_server",
                format!(
                    "{} returned {} but the server never received it",
                    describe_op(op),
                    op.result.summary()
                ),
            ));
        };
        let sent: Vec<String> = op.ids.iter().map(|i| format!("req {}", i)).collect();
        if unit.lines != sent {
            return Some(Violation::new(
                "C01",
                "request_altered",
                format!(
                    "{} reached the server as {:?}",
                    describe_op(op),
                    unit.lines
                ),
            ));
        }
        let exp = expected_result(op, unit);
        if op.result != exp {
            let foreign = result_mentions_foreign_id(op, &op.result);
            let clause = if foreign {
                "foreign_reply"
            } else if matches!(exp, OpResult::ErrResponse { .. }) {
                "list_error_reply_wrong"
            } else {
                "wrong_reply"
            };
            return Some(Violation::new(
                "C01",
                clause,
                format!(
                    "{} returned {} but the server's reply to it was {}",
                    describe_op(op),
                    op.result.summary(),
                    exp.summary()
                ),
            ));
        }
    }
    // (c) exactly once / at most once
    for op in &ops {
        for id in &op.ids {
            let needle = format!("req {}", id);
            let n = out
                .units
                .iter()
                .flat_map(|u| u.lines.iter())
                .filter(|l| **l == needle)
                .count();
            let cancelled = op.result == OpResult::Cancelled;
            if n > 1 || (n == 0 && !cancelled) {
                return Some(Violation::new(
                    "C01",
                    "not_exactly_once",
                    format!(
                        "request id {} of {} reached the server {} times",
                        id,
                        describe_op(op),
                        n
                    ),
                ));
            }
        }
    }
    // (d) per-caller order
    let ncallers = plan.callers.len();
    for c in 0..ncallers {
        let mut issued: Vec<(u64, u64)> = out
            .ops
            .iter()
            .filter(|o| o.caller == c && o.kind != "album_art" && !o.ids.is_empty())
            .map(|o| (o.invoke_seq, o.ids[0]))
            .collect();
        issued.sort_unstable();
        let arrived: Vec<u64> = out
            .units
            .iter()
            .filter_map(|u| {
                u.lines
                    .first()
                    .and_then(|l| l.strip_prefix("req "))
                    .and_then(|n| n.parse::<u64>().ok())
            })
            .filter(|id| issued.iter().any(|(_, i)| i == id))
            .collect();
        let issued_arrived: Vec<u64> = issued
            .iter()
            .map(|(_, i)| *i)
            .filter(|i| arrived.contains(i))
            .collect();
        if issued_arrived != arrived {
            return Some(Violation::new(
                "C01",
                "order",
                format!(
                    "caller {} issued requests in order {:?} but they reached the server in order {:?}",
                    c, issued_arrived, arrived
                ),
            ));
        }
    }
    None
}

// =============================================================================================
// C04

pub fn written_changes(out: &RunOutput) -> Vec<(String, u64, usize, usize)> {
    // (name, written_seq, response index, position in reply)
    let mut v = Vec::new();
    for (ri, r) in out.responses.iter().enumerate() {
        if let RespKind::Idle { changes, .. } = &r.kind {
            for (pos, c) in changes.iter().enumerate() {
                v.push((c.clone(), r.written_seq, ri, pos));
            }
        }
    }
    v
}

pub fn delivered_changes(out: &RunOutput) -> Vec<(String, u64)> {
    out.events
        .iter()
        .filter_map(|(seq, _, e)| match e {
            EventRec::Change(n) => Some((n.clone(), *seq)),
            _ => None,
        })
        .collect()
}

pub fn check_c04(plan: &Plan, out: &RunOutput) -> Option<Violation> {
    if let Some(v) = panic_violation("C04", out) {
        return Some(v);
    }
    if !matches!(out.connect, ConnectOutcome::Ok(_)) {
        if !plan.fault_free() && !out.faults_fired.is_empty() {
            return None; // the fault landed in the handshake
        }
        return Some(Violation::new(
            "C04",
            "connect",
            format!("connect failed on a fault-free session: {:?}", out.connect),
        ));
    }
    // Under an injected fault the delivered events must be a prefix of what the server reported,
    // between two bounds that do not depend on how an implementation buffers or dispatches:
    //  * at least the changes of every idle reply the client demonstrably consumed — it read the
    //    reply completely and afterwards wrote (or tried to write) a line other than `noidle`,
    //    which the idle/noidle discipline only allows once that reply has been taken in;
    //  * at most the changes whose own `changed:` line the client endpoint read completely
    //    (an implementation may publish line by line, before the reply's final `OK`).
    // Replies hit by injected garbage end both prefixes.
    let mut written = written_changes(out);
    let delivered = delivered_changes(out);
    if !plan.fault_free() {
        let consumed_after = |seq: u64| {
            out.log.iter().any(|e| {
                e.seq > seq
                    && match &e.ev {
                        Ev::ClientLine(t) | Ev::WriteAttempt(t) => {
                            t.split(' ').next().unwrap_or("") != "noidle"
                        }
                        _ => false,
                    }
            })
        };
        let (mut k_min, mut k_max) = (0usize, 0usize);
        let (mut must_open, mut may_open) = (true, true);
        for r in out.responses.iter() {
            let RespKind::Idle { changes, .. } = &r.kind else {
                continue;
            };
            if !r.intact {
                break;
            }
            let consumed = r.fully_read_seq.map(|s| consumed_after(s)).unwrap_or(false);
            let mut off = r.start;
            for c in changes {
                off += "changed: ".len() + c.len() + 1;
                if may_open && off <= out.s2c_read {
                    k_max += 1;
                } else {
                    may_open = false;
                }
                if must_open && consumed {
                    k_min += 1;
                }
            }
            if !consumed {
                must_open = false;
            }
            if r.fully_read_seq.is_none() {
                break;
            }
        }
        let k_max = k_max.max(k_min);
        let n = delivered.len();
        if n >= k_min
            && n <= k_max
            && delivered.iter().zip(written.iter()).all(|(d, w)| d.0 == w.0 && d.1 >= w.1)
        {
            return None;
        }
        written.truncate(if n < k_min { k_min } else { k_max });
    }
    let wn: Vec<&str> = written.iter().map(|w| w.0.as_str()).collect();
    let dn: Vec<&str> = delivered.iter().map(|d| d.0.as_str()).collect();
    // first divergence
    let mut i = 0;
    while i < wn.len() && i < dn.len() && wn[i] == dn[i] {
        if delivered[i].1 < written[i].1 {
            return Some(Violation::new(
                "C04",
                "invented",
                format!(
                    "event {:?} was delivered (seq {}) before the server reported it (seq {})",
                    dn[i], delivered[i].1, written[i].1
                ),
            ));
        }
        i += 1;
    }
    if i == wn.len() && i == dn.len() {
        return None;
    }
    let all_read = out.s2c_read >= out.s2c.len() || !plan.fault_free();
    if i == dn.len() {
        // delivered is a strict prefix: the tail is lost (or still in flight)
        if !all_read {
            return Some(Violation::new(
                "C04",
                "server_output_unread_at_quiescence",
                format!(
                    "client stopped reading: {} of {} server bytes read at quiescence",
                    out.s2c_read,
                    out.s2c.len()
                ),
            ));
        }
        return Some(lost_violation(out, &written, i, &wn, &dn));
    }
    if i == wn.len() {
        let clause = if i > 0 && dn[i] == dn[i - 1] || wn.contains(&dn[i]) {
            "duplicated"
        } else {
            "invented"
        };
        return Some(Violation::new(
            "C04",
            clause,
            format!(
                "event #{} {:?} was delivered but the server reported only {:?}",
                i, dn[i], wn
            ),
        ));
    }
    // both continue and differ
    if wn[i + 1..].contains(&dn[i]) && !dn[i + 1..].contains(&wn[i]) {
        return Some(lost_violation(out, &written, i, &wn, &dn));
    }
    if i > 0 && dn[i] == dn[i - 1] {
        return Some(Violation::new(
            "C04",
            "duplicated",
            format!(
                "event #{} repeats {:?}; server reported {:?}, delivered {:?}",
                i, dn[i], wn, dn
            ),
        ));
    }
    if dn[i + 1..].contains(&wn[i]) && wn[i + 1..].contains(&dn[i]) {
        return Some(Violation::new(
            "C04",
            "reordered",
            format!("server reported {:?} but delivered order is {:?}", wn, dn),
        ));
    }
    if wn[i].eq_ignore_ascii_case(dn[i]) || !wn.contains(&dn[i]) {
        return Some(Violation::new(
            "C04",
            "name_not_verbatim",
            format!(
                "event #{}: server reported {:?} but the event carries {:?}",
                i, wn[i], dn[i]
            ),
        ));
    }
    Some(Violation::new(
        "C04",
        "sequence_mismatch",
        format!("server reported {:?} but delivered {:?}", wn, dn),
    ))
}

fn lost_violation(
    out: &RunOutput,
    written: &[(String, u64, usize, usize)],
    i: usize,
    wn: &[&str],
    dn: &[&str],
) -> Violation {
    let (name, _, ri, pos) = &written[i];
    let resp = &out.responses[*ri];
    let mut v = Violation::new(
        "C04",
        "lost",
        format!(
            "change {:?} (line {} of the idle reply at s2c {}..{}) was reported by the server but never delivered; reported {:?}, delivered {:?}",
            name,
            pos,
            resp.start,
            resp.end,
            clip(&format!("{:?}", wn), 200),
            clip(&format!("{:?}", dn), 200)
        ),
    );
    if *pos > 0 {
        v = v.tag("lost_is_not_first_line_of_its_reply");
    } else {
        v = v.tag("lost_is_first_line_of_its_reply");
    }
    // was the reply read in several reads with a caller's enqueue in between?
    let reads: Vec<u64> = out
        .log
        .iter()
        .filter_map(|e| match &e.ev {
            Ev::ClientRead { start, end, .. } if *end > resp.start && *start < resp.end => {
                Some(e.seq)
            }
            _ => None,
        })
        .collect();
    if reads.len() > 1 {
        let (a, b) = (reads[0], *reads.last().unwrap());
        let invoke_between = out
            .log
            .iter()
            .any(|e| e.seq > a && e.seq < b && matches!(e.ev, Ev::Invoke { .. }));
        if invoke_between {
            v = v.tag("reply_read_in_several_reads_with_request_between");
        } else {
            v = v.tag("reply_read_in_several_reads");
        }
    } else {
        v = v.tag("reply_read_in_one_read");
    }
    v
}

// =============================================================================================
// C05

pub fn check_c05(plan: &Plan, out: &RunOutput) -> Option<Violation> {
    if let Some(v) = panic_violation("C05", out) {
        return Some(v);
    }
    if !matches!(out.connect, ConnectOutcome::Ok(_)) {
        return Some(Violation::new(
            "C05",
            "connect",
            format!("connect failed on a fault-free session: {:?}", out.connect),
        ));
    }
    if let Some((c, d)) = out.judge.violations.first() {
        return Some(Violation::new("C05", c, d.clone()));
    }
    if let Some((c, d)) = out.server_violations.first() {
        return Some(Violation::new("C05", c, d.clone()));
    }
    if out.judge.lines.is_empty() {
        return Some(Violation::new(
            "C05",
            "J1_first_command_is_not_idle",
            "the client never wrote anything after the greeting",
        ));
    }
    // J5: liveness at quiescence (handles still exist, connection alive)
    let handles_alive = !out.closed_flags.is_empty();
    if handles_alive && out.end.is_none() {
        if !out.idle_at_quiescence {
            return Some(Violation::new(
                "C05",
                "J5_not_idling_at_quiescence",
                "60 s after the last activity the server is not waiting in idle: notifications have stopped flowing",
            ));
        }
        if matches!(plan.consumer, Consumer::Drain | Consumer::StartAt(_) | Consumer::Ticking { .. }) {
            let got = out.events.iter().any(|(seq, _, e)| {
                matches!(e, EventRec::Change(n) if n == "simprobe")
                    && Some(*seq) > out.probe_change_seq
            });
            if !got {
                return Some(Violation::new(
                    "C05",
                    "J5_notification_after_quiescence_not_delivered",
                    "a change raised after quiescence never came out of the event stream",
                ));
            }
        }
    }
    None
}

// =============================================================================================
// C08

pub fn check_c08(plan: &Plan, out: &RunOutput) -> Option<Violation> {
    if let Some(v) = panic_violation("C08", out) {
        return Some(v);
    }
    let ConnectOutcome::Ok(_) = out.connect else {
        // a time-triggered fault can land in the handshake: that is C18's ground, not C08's
        if !out.faults_fired.is_empty() && !matches!(out.connect, ConnectOutcome::Hung) {
            return None;
        }
        return Some(Violation::new(
            "C08",
            "connect",
            format!("connect failed: {:?}", out.connect),
        ));
    };
    let ended = out.end.is_some();
    // an injected refusal of idle is "observed" when the client has read that ACK completely
    let denied_read_seq = out
        .responses
        .iter()
        .find(|r| matches!(&r.kind, RespKind::Idle { trigger, .. } if *trigger == IdleTrigger::Denied))
        .and_then(|r| r.fully_read_seq);
    let mut ops: Vec<&OpRecord> = out.ops.iter().collect();
    // R1: everything resolves
    for op in &ops {
        if op.result == OpResult::Hung || op.result == OpResult::Panicked {
            return Some(
                Violation::new(
                    "C08",
                    "R1_request_never_resolved",
                    format!(
                        "{} never resolved (connection end: {:?})",
                        describe_op(op),
                        out.end.as_ref().map(|e| e.kind.clone())
                    ),
                )
                .tag(format!("end={}", out.end.as_ref().map(|e| e.kind.as_str()).unwrap_or("none"))),
            );
        }
    }
    if !out.callers_all_done {
        return Some(Violation::new(
            "C08",
            "R1_request_never_resolved",
            "a caller script did not finish",
        ));
    }
    // R2: reply if completely received, otherwise an error — never wrong data
    for op in &ops {
        if op.result == OpResult::Cancelled {
            continue;
        }
        if op.kind == "album_art" {
            if let OpResult::Art(a) = &op.result {
                let pic = plan.pictures.iter().find(|p| Some(&p.uri) == op.uri.as_ref());
                if let Some(pic) = pic {
                    if !art_matches(&expect_art(pic, plan.binary_limit), &OpResult::Art(a.clone())) {
                        return Some(Violation::new(
                            "C08",
                            "R2_wrong_data_after_fault",
                            format!(
                                "{} returned {} which is not the stored picture",
                                describe_op(op),
                                op.result.summary()
                            ),
                        ));
                    }
                }
            }
            continue;
        }
        let unit = unit_for(out, op);
        let resp = unit.and_then(|u| {
            out.responses
                .iter()
                .find(|r| r.kind == RespKind::Unit(u.index))
        });
        let fully = resp.map(|r| r.intact && r.fully_read_seq.is_some()).unwrap_or(false);
        // "completely received" binds only if it happened before the request resolved and
        // nothing earlier in the byte stream was corrupted (after injected garbage no later
        // reply can be delivered, however much of it an implementation that reads ahead pulls in)
        let binding = fully
            && resp
                .map(|r| {
                    r.fully_read_seq.unwrap_or(u64::MAX) < op.return_seq.unwrap_or(u64::MAX)
                        && out.responses.iter().filter(|x| x.start < r.start).all(|x| x.intact)
                })
                .unwrap_or(false);
        if fully && !binding {
            let exp = expected_result(op, unit.unwrap());
            if op.result != exp && !matches!(op.result, OpResult::ErrClosed | OpResult::ErrProtocol(_)) {
                return Some(Violation::new(
                    "C08",
                    "R2_wrong_data_after_fault",
                    format!(
                        "{} returned {} which is neither its reply nor an error",
                        describe_op(op),
                        op.result.summary()
                    ),
                ));
            }
        } else if fully {
            let exp = expected_result(op, unit.unwrap());
            if op.result != exp {
                let clause = if op.result.is_err()
                    && !matches!(op.result, OpResult::ErrResponse { .. })
                {
                    "R2_completely_received_reply_not_delivered"
                } else {
                    "R2_wrong_data_after_fault"
                };
                return Some(Violation::new(
                    "C08",
                    clause,
                    format!(
                        "{}: its reply was completely read by the client (s2c {}..{}) but it returned {} instead of {}",
                        describe_op(op),
                        resp.unwrap().start,
                        resp.unwrap().end,
                        op.result.summary(),
                        exp.summary()
                    ),
                ));
            }
        } else {
            let ok = matches!(op.result, OpResult::ErrClosed | OpResult::ErrProtocol(_));
            if !ok {
                return Some(Violation::new(
                    "C08",
                    "R2_wrong_data_after_fault",
                    format!(
                        "{}: its reply was never completely received, yet it returned {}",
                        describe_op(op),
                        op.result.summary()
                    ),
                ));
            }
        }
    }
    // R3: a later request
    if let Some(p) = &out.probe_request {
        ops.push(p);
        if p.result == OpResult::Hung {
            return Some(Violation::new(
                "C08",
                "R3_later_request_never_resolved",
                "a request issued at quiescence did not resolve within 60 s",
            ));
        }
        let ended = ended && (out.end.as_ref().map(|e| e.kind != "idle_denied").unwrap_or(true) || denied_read_seq.is_some());
        if ended {
            // after the end (observed or not) it must not succeed with invented data
            let unit = unit_for(out, p);
            let resp = unit.and_then(|u| {
                out.responses
                    .iter()
                    .find(|r| r.kind == RespKind::Unit(u.index))
            });
            let fully = resp.map(|r| r.intact && r.fully_read_seq.is_some()).unwrap_or(false);
            if !fully && !matches!(p.result, OpResult::ErrClosed | OpResult::ErrProtocol(_)) {
                return Some(Violation::new(
                    "C08",
                    "R3_later_request_not_an_error",
                    format!("a request issued after the connection ended returned {}", p.result.summary()),
                ));
            }
        } else if p.result != OpResult::Frame(crate::session::mpd::req_frame(PROBE_ID, 0, 0, None).0) {
            return Some(Violation::new(
                "C08",
                "R3_later_request_wrong_on_live_connection",
                format!("connection alive, later request returned {}", p.result.summary()),
            ));
        }
    }
    let client_saw_end = out.client_observed_end.is_some() || denied_read_seq.is_some();
    // R4: reports itself closed
    if ended && (client_saw_end || out.probe_request.is_some()) && out.closed_flags.iter().any(|c| !*c)
    {
        // the client has had occasion to notice: it observed the end, or a later request failed
        let noticed = client_saw_end
            || out
                .probe_request
                .as_ref()
                .map(|p| p.result.is_err())
                .unwrap_or(false);
        if noticed {
            return Some(Violation::new(
                "C08",
                "R4_not_reported_closed",
                format!(
                    "is_connection_closed() is false on {} of {} handles after the connection ended",
                    out.closed_flags.iter().filter(|c| !**c).count(),
                    out.closed_flags.len()
                ),
            ));
        }
    }
    // R5: event stream shape
    if out.receiver_dropped_seq.is_none() {
        let mut closed_seen = 0;
        let mut end_seen = false;
        for (_, _, e) in &out.events {
            match e {
                EventRec::Change(n) => {
                    if closed_seen > 0 || end_seen {
                        return Some(Violation::new(
                            "C08",
                            "R5_event_after_closing_event",
                            format!("change {:?} delivered after the closing event", n),
                        ));
                    }
                }
                EventRec::Closed(_) => {
                    closed_seen += 1;
                    if closed_seen > 1 {
                        return Some(Violation::new(
                            "C08",
                            "R5_more_than_one_closing_event",
                            "two ConnectionClosed events were delivered",
                        ));
                    }
                }
                EventRec::StreamEnd => end_seen = true,
            }
        }
        if !end_seen {
            return Some(Violation::new(
                "C08",
                "R5_event_stream_never_ends",
                "all handles were dropped but the event stream did not end within 60 s",
            ));
        }
    }
    // R6: an unclean end the client observed is surfaced. Everything below is stated in terms of
    // what was on the wire and what came out of the API — not of the moment the simulated
    // transport first reported the failure, because an implementation that reads ahead (a reader
    // task, a buffering layer) meets the failure earlier than it acts on it.
    if let Some(end) = &out.end {
        let garbage_seen = out.garbage_at.map(|g| out.s2c_read > g).unwrap_or(false);
        // Garbage that was read into the receive buffer is only *parsed* by the next receive();
        // a client whose handles were all dropped in the meantime legitimately never gets there.
        let handles_at_quiescence = !out.closed_flags.is_empty();
        let observed = match end.kind.as_str() {
            "garbage" => garbage_seen && handles_at_quiescence,
            "idle_denied" => denied_read_seq.is_some(),
            _ => client_saw_end,
        };
        if !end.clean && observed {
            let is_garbage = end.kind == "garbage";
            let transport_failure =
                matches!(end.kind.as_str(), "cut" | "read_err" | "reset" | "write_err");
            // the earliest moment the client can have known (lower bound only)
            let t0 = if is_garbage {
                out.log
                    .iter()
                    .find(|e| matches!(&e.ev, Ev::ClientRead { end, .. } if Some(*end) > out.garbage_at))
                    .map(|e| e.seq)
                    .unwrap_or(0)
            } else if end.kind == "idle_denied" {
                denied_read_seq.unwrap_or(0)
            } else {
                out.client_observed_end.unwrap_or(0)
            };
            let protocol_err = ops
                .iter()
                .any(|o| matches!(o.result, OpResult::ErrProtocol(_)));
            let closed_event = out
                .events
                .iter()
                .any(|(_, _, e)| matches!(e, EventRec::Closed(_)));
            // a closing event can only be demanded if the receiver was there to take it whenever
            // the client got round to sending it
            let receiver_throughout = out.receiver_dropped_seq.is_none();
            // A caller that cancelled its request may have been the one "whose request was in
            // flight": the loop hands the failure to its (dead) responder, and the statement asks
            // for nothing more. Exempt runs in which a cancelled request never got its reply.
            let cancelled_unanswered = ops
                .iter()
                .any(|o| o.result == OpResult::Cancelled && !reply_complete_early(out, o));
            if cancelled_unanswered {
                return r7(out);
            }
            let line_of = |e: &crate::session::net::LogEntry| -> Option<String> {
                match &e.ev {
                    Ev::ClientLine(t) | Ev::WriteAttempt(t) => Some(t.clone()),
                    _ => None,
                }
            };
            let art_involved = ops.iter().any(|o| o.kind == "album_art" && !reply_complete_early(out, o));
            // R6b (A): a request whose own request line was written — or was being written when
            // the write failed — and whose reply never completely arrived was in flight when the
            // connection failed, whenever the implementation learnt of the failure: its caller is
            // told the failure itself, not a clean "connection closed".
            if transport_failure && !art_involved {
                for o in ops.iter().filter(|o| o.kind != "album_art") {
                    let Some(id) = o.ids.first() else { continue };
                    let own = format!("req {}", id);
                    let on_the_wire = out.log.iter().any(|e| {
                        e.seq > o.invoke_seq && line_of(e).map(|t| t == own).unwrap_or(false)
                    });
                    if on_the_wire
                        && !reply_complete_early(out, o)
                        && !matches!(o.result, OpResult::ErrProtocol(_))
                    {
                        return Some(
                            Violation::new(
                                "C08",
                                "R6_caller_in_flight_not_told_the_failure",
                                format!(
                                    "the connection ended uncleanly ({}) while the request of {} was in flight (its request line had been written, or was being written when the write failed, and its reply never arrived completely), but that caller got {} instead of the protocol error",
                                    end.kind,
                                    describe_op(o),
                                    o.result.summary()
                                ),
                            )
                            .tag(format!("end={}", end.kind)),
                        );
                    }
                }
            }
            // R6 proper: surfaced to some caller, or as a closing event
            // (a client whose last handle is dropped may stop on that account, with a failure it
            // has met but not yet acted on — only a client that was still wanted owes the report)
            let visible = protocol_err || closed_event;
            if !visible && receiver_throughout && handles_at_quiescence {
                return Some(
                    Violation::new(
                        "C08",
                        "R6_failure_not_surfaced",
                        format!(
                            "the connection ended uncleanly ({}) and the client observed it ({}), the event receiver was alive throughout, but no request returned a protocol error and no closing event was delivered",
                            end.kind,
                            out.observed_kind.clone().unwrap_or_else(|| "garbage read".into()),
                        ),
                    )
                    .tag(format!("end={}", end.kind)),
                );
            }
            // R6b (B): if the last line written (or attempted) before anything surfaced was
            // `noidle`, the loop had cancelled idle in order to serve a pending request when the
            // connection failed: at least one pending caller is told the failure itself.
            if transport_failure && !art_involved {
                let surfaced = ops
                    .iter()
                    .filter(|o| o.result.is_err() && !matches!(o.result, OpResult::ErrResponse { .. }))
                    .filter_map(|o| o.return_seq)
                    .filter(|r| *r > t0)
                    .chain(
                        out.events
                            .iter()
                            .filter(|(_, _, e)| matches!(e, EventRec::Closed(_)))
                            .map(|(s, _, _)| *s),
                    )
                    .chain(out.endpoint_dropped.into_iter())
                    .min();
                if let Some(t_surface) = surfaced {
                    let q: Vec<&&OpRecord> = ops
                        .iter()
                        .filter(|o| {
                            o.kind != "album_art"
                                && o.invoke_seq < t_surface
                                && o.return_seq.map(|r| r >= t_surface).unwrap_or(true)
                                && !reply_complete_early(out, o)
                        })
                        .collect();
                    let first_invoke = q.iter().map(|o| o.invoke_seq).min().unwrap_or(0);
                    let last_line = out
                        .log
                        .iter()
                        .filter(|e| e.seq > first_invoke && e.seq < t_surface)
                        .filter_map(|e| line_of(e))
                        .last();
                    if !q.is_empty()
                        && last_line.as_deref() == Some("noidle")
                        && !q.iter().any(|o| matches!(o.result, OpResult::ErrProtocol(_)))
                    {
                        return Some(
                            Violation::new(
                                "C08",
                                "R6_caller_in_flight_not_told_the_failure",
                                format!(
                                    "the connection ended uncleanly ({}) after the loop had cancelled idle with noidle in order to serve a pending request ({} pending), but no pending caller was told the failure itself (first pending: {} got {})",
                                    end.kind,
                                    q.len(),
                                    describe_op(q[0]),
                                    q[0].result.summary()
                                ),
                            )
                            .tag(format!("end={}", end.kind)),
                        );
                    }
                }
            }
        }
    }
    r7(out)
}

fn reply_complete_early(out: &RunOutput, o: &OpRecord) -> bool {
    unit_for(out, o)
        .and_then(|u| {
            out.responses
                .iter()
                .find(|r| r.kind == RespKind::Unit(u.index))
        })
        .map(|r| r.intact && r.fully_read_seq.is_some())
        .unwrap_or(false)
}

/// R7: transport released
fn r7(out: &RunOutput) -> Option<Violation> {
    if out.endpoint_dropped.is_none() {
        return Some(Violation::new(
            "C08",
            "R7_transport_not_released",
            "all handles were dropped and 60 s passed, but the transport object is still alive",
        ));
    }
    None
}

// =============================================================================================
// C17

#[derive(Clone, Debug, PartialEq, Eq)]
pub enum ArtExpect {
    Some(Vec<u8>, Option<String>),
    None,
    Err(u64),
}

/// 20-line reference: what loading album art must return for a stored picture.
/// Offsets an honest client asks for: 0, then the running total of what it received, while that
/// is below the size. The server hands out min(limit, remaining, cap_k) bytes for the k-th chunk.
pub fn request_offsets(size: u64, limit: usize, caps: &[usize]) -> Vec<u64> {
    let limit = limit.max(1) as u64;
    let mut offs = vec![0u64];
    let mut off = 0u64;
    let mut k = 0usize;
    while off < size {
        let mut n = limit.min(size - off);
        if !caps.is_empty() {
            n = n.min(caps[k % caps.len()].max(1) as u64);
        }
        k += 1;
        off += n;
        if off < size {
            offs.push(off);
        }
    }
    offs
}

pub fn expect_art(pic: &Picture, limit: usize) -> ArtExpect {
    match expect_art_first(pic) {
        ArtExpect::Some(b, m) => {
            // a later chunk request may fail: the first continuation offset at or above the
            // threshold (this is the prediction for a client that asks for one chunk after the
            // other; `check_c17` itself goes by what the server actually answered)
            if let Some((threshold, code)) = pic.later_error {
                let offs = request_offsets(b.len() as u64, limit, &pic.chunk_caps);
                if offs.iter().any(|o| *o > 0 && *o >= threshold) {
                    return ArtExpect::Err(code);
                }
            }
            ArtExpect::Some(b, m)
        }
        other => other,
    }
}

/// One picture request as the server saw it (stand-alone or as a member of a command list).
#[derive(Clone, Debug)]
pub struct ArtReq {
    pub embedded: bool,
    pub offset: u64,
    /// `None`: answered with data (or an empty reply); `Some(e)`: answered with this ACK
    pub error: Option<crate::canon::CErr>,
}

/// The picture requests for `uri` the server executed, in order. Members of a command list
/// that were never executed (they follow the failing member) are left out.
pub fn art_requests(out: &RunOutput, uri: &str) -> Vec<ArtReq> {
    let mut reqs = Vec::new();
    for u in &out.units {
        for (i, line) in u.lines.iter().enumerate() {
            let Ok((word, args)) = crate::session::mpd::tokenize(line.as_bytes()) else {
                continue;
            };
            let embedded = match word.as_str() {
                "readpicture" => true,
                "albumart" => false,
                _ => continue,
            };
            if args.first().map(|a| a.as_slice()) != Some(uri.as_bytes()) {
                continue;
            }
            let offset = args
                .get(1)
                .and_then(|a| std::str::from_utf8(a).ok())
                .and_then(|a| a.parse::<u64>().ok())
                .unwrap_or(u64::MAX);
            let error = match &u.reply.error {
                Some(e) if e.index as usize == i => Some(e.clone()),
                Some(e) if (e.index as usize) < i => break, // not executed
                _ => None,
            };
            reqs.push(ArtReq {
                embedded,
                offset,
                error,
            });
        }
    }
    reqs
}

fn expect_art_first(pic: &Picture) -> ArtExpect {
    let fallback = |pic: &Picture| -> ArtExpect {
        if let Some(c) = pic.albumart_error {
            return ArtExpect::Err(c);
        }
        match &pic.cover {
            Cover::NoneOk => ArtExpect::None,
            Cover::NoneAck => ArtExpect::Err(50),
            Cover::Bytes(b) => ArtExpect::Some(b.clone(), None),
        }
    };
    if pic.readpicture_unknown {
        return fallback(pic);
    }
    match pic.readpicture_error {
        Some(5) => return fallback(pic),
        Some(c) => return ArtExpect::Err(c),
        None => {}
    }
    match &pic.embedded {
        None => fallback(pic),
        Some(e) => ArtExpect::Some(e.data.clone(), e.mime.clone()),
    }
}

pub fn art_uses_fallback(pic: &Picture) -> bool {
    pic.readpicture_unknown
        || pic.readpicture_error == Some(5)
        || (pic.readpicture_error.is_none() && pic.embedded.is_none())
}

fn art_matches(exp: &ArtExpect, got: &OpResult) -> bool {
    match (exp, got) {
        (ArtExpect::Some(b, m), OpResult::Art(Some((gb, gm)))) => b == gb && m == gm,
        (ArtExpect::None, OpResult::Art(None)) => true,
        (ArtExpect::Err(c), OpResult::ErrResponse { err, .. }) => err.code == *c,
        _ => false,
    }
}

pub fn check_c17(plan: &Plan, out: &RunOutput) -> Option<Violation> {
    if let Some(v) = panic_violation("C17", out) {
        return Some(v);
    }
    if !matches!(out.connect, ConnectOutcome::Ok(_)) {
        return Some(Violation::new(
            "C17",
            "connect",
            format!("connect failed on a fault-free session: {:?}", out.connect),
        ));
    }
    for op in out.ops.iter().filter(|o| o.kind == "album_art") {
        let uri = op.uri.clone().unwrap_or_default();
        let Some(pic) = plan.pictures.iter().find(|p| p.uri == uri) else {
            continue;
        };
        if op.result == OpResult::Cancelled {
            continue;
        }
        if op.result == OpResult::Hung {
            return Some(Violation::new(
                "C17",
                "never_finished",
                format!("album_art({:?}) did not finish", uri),
            ));
        }
        // the reference result: what is stored, unless the server answered one of the chunk
        // requests it actually received with the injected "later chunk" error — which requests
        // a client sends for the later chunks (one at a time, batched, ...) is its own business
        let reqs = art_requests(out, &uri);
        let exp = match expect_art_first(pic) {
            ArtExpect::Some(b, m) => match reqs
                .iter()
                .filter_map(|r| r.error.as_ref())
                .find(|e| e.message == "forced error on a later chunk")
            {
                Some(e) => ArtExpect::Err(e.code),
                None => ArtExpect::Some(b, m),
            },
            other => other,
        };
        // the embedded picture vanished under the client's feet (a continuation `readpicture`
        // was answered with a bare OK): absence, an error or the complete cover file are all
        // defensible — bytes that are not one stored picture are not
        let vanished = pic
            .embedded_vanishes_at
            .map(|t| {
                reqs.iter()
                    .any(|r| r.embedded && r.error.is_none() && r.offset > 0 && r.offset >= t)
            })
            .unwrap_or(false);
        if vanished {
            let ok = match &op.result {
                OpResult::Art(None) => true,
                OpResult::Art(Some((b, m))) => {
                    matches!(&pic.cover, Cover::Bytes(c) if c == b) && m.is_none()
                }
                r => r.is_err(),
            };
            if !ok {
                return Some(Violation::new(
                    "C17",
                    "bytes_of_two_pictures_stitched",
                    format!(
                        "album_art({:?}): the embedded picture vanished during the transfer (a later readpicture was answered with a bare OK) and the call returned {} — neither absence, nor an error, nor the complete cover file",
                        uri,
                        op.result.summary()
                    ),
                ));
            }
            continue;
        }
        if !art_matches(&exp, &op.result) {
            let clause = match (&exp, &op.result) {
                (ArtExpect::Some(..), OpResult::Art(Some(_))) => "bytes_or_mime_differ",
                (ArtExpect::Err(_), _) => "server_error_not_propagated",
                (_, OpResult::ErrResponse { .. }) => "unexpected_error",
                (ArtExpect::None, _) => "absence_not_reported",
                _ => "wrong_result",
            };
            let detail = match (&exp, &op.result) {
                (ArtExpect::Some(b, m), OpResult::Art(Some((gb, gm)))) => {
                    let first_diff = b.iter().zip(gb.iter()).position(|(x, y)| x != y);
                    format!(
                        "album_art({:?}): stored {} bytes mime {:?}, returned {} bytes mime {:?}, first differing offset {:?} (chunk limit {})",
                        uri,
                        b.len(),
                        m,
                        gb.len(),
                        gm,
                        first_diff,
                        plan.binary_limit
                    )
                }
                _ => format!(
                    "album_art({:?}) returned {} but the reference says {:?}",
                    uri,
                    op.result.summary(),
                    match &exp {
                        ArtExpect::Some(b, m) => format!("Some({} bytes, {:?})", b.len(), m),
                        other => format!("{:?}", other),
                    }
                ),
            };
            return Some(Violation::new("C17", clause, detail));
        }
        // transcript
        let Some(first) = reqs.first() else {
            return Some(Violation::new(
                "C17",
                "transcript",
                format!("album_art({:?}) finished but the server saw no request for it", uri),
            ));
        };
        if !(first.embedded && first.offset == 0) {
            return Some(Violation::new(
                "C17",
                "transcript_first_request",
                format!(
                    "first request for {:?} was {} at offset {}, expected readpicture at offset 0",
                    uri,
                    if first.embedded { "readpicture" } else { "albumart" },
                    first.offset
                ),
            ));
        }
        let used_albumart = reqs.iter().any(|r| !r.embedded);
        if used_albumart != art_uses_fallback(pic) {
            return Some(Violation::new(
                "C17",
                "fallback_iff",
                format!(
                    "album_art({:?}): cover-file command issued = {}, but the reference says fallback = {}",
                    uri,
                    used_albumart,
                    art_uses_fallback(pic)
                ),
            ));
        }
        for embedded in [true, false] {
            let offs: Vec<u64> = reqs
                .iter()
                .filter(|r| r.embedded == embedded)
                .map(|r| r.offset)
                .collect();
            if offs.is_empty() {
                continue;
            }
            // with a server that hands out less than its chunk limit (outside the property's
            // quantifier, kept for byte-exactness) only the start is pinned down
            let increasing = pic.chunk_caps.is_empty();
            if offs[0] != 0 || (increasing && offs.windows(2).any(|w| w[1] <= w[0])) {
                return Some(Violation::new(
                    "C17",
                    "offsets_not_strictly_increasing",
                    format!("album_art({:?}) requested offsets {:?}", uri, offs),
                ));
            }
            let size = if embedded {
                pic.embedded.as_ref().map(|e| e.data.len() as u64)
            } else {
                match &pic.cover {
                    Cover::Bytes(b) => Some(b.len() as u64),
                    _ => None,
                }
            };
            if let Some(size) = size {
                if let Some(o) = offs.iter().find(|o| **o > size) {
                    return Some(Violation::new(
                        "C17",
                        "offset_beyond_size",
                        format!(
                            "album_art({:?}) requested offset {} of a picture of {} bytes (offsets {:?})",
                            uri, o, size, offs
                        ),
                    ));
                }
            }
        }
        if let ArtExpect::Some(b, _) = &exp {
            // finitely many: strictly increasing offsets within the picture allow at most one
            // request per byte and source; twice that where short chunks permit re-requests
            let bound = if pic.chunk_caps.is_empty() {
                b.len() + 3
            } else {
                2 * b.len() + 35
            };
            if reqs.len() > bound {
                return Some(Violation::new(
                    "C17",
                    "too_many_requests",
                    format!(
                        "album_art({:?}) needed {} requests for {} bytes at chunk limit {} (bound {})",
                        uri,
                        reqs.len(),
                        b.len(),
                        plan.binary_limit.max(1),
                        bound
                    ),
                ));
            }
        }
    }
    None
}

// =============================================================================================
// C18 (b): password handshake

pub fn check_c18b(plan: &Plan, out: &RunOutput) -> Option<Violation> {
    if let Some(v) = panic_violation("C18", out) {
        return Some(v);
    }
    if let Some((c, d)) = out.judge.violations.first() {
        // J1/J3 cover: nothing before the greeting, no idle before the password reply was read
        return Some(Violation::new("C18", &format!("handshake_{}", c), d.clone()));
    }
    if let Some((c, d)) = out
        .server_violations
        .iter()
        .find(|(c, _)| c.contains("password"))
    {
        return Some(Violation::new("C18", c, d.clone()));
    }
    if !plan.faults.is_empty() {
        // the write side breaks right after the handshake: the greeting was valid and was
        // delivered, the password (if any) was accepted — connecting succeeds; whatever the
        // session then makes of its broken transport is C08's matter
        if let Some(p) = &plan.password {
            let first_ok = out
                .server_lines
                .first()
                .and_then(|l| crate::session::mpd::tokenize(l.as_bytes()).ok())
                .map(|(w, a)| w == "password" && a.len() == 1 && a[0] == p.password.as_bytes())
                .unwrap_or(false);
            if !first_ok {
                return Some(Violation::new(
                    "C18",
                    "password_not_first",
                    format!("first line the server received is {:?}", out.server_lines.first()),
                ));
            }
        }
        return match &out.connect {
            ConnectOutcome::Ok(v) if *v == plan.version => None,
            other => Some(Violation::new(
                "C18",
                "connect_result_transport_broke_after_handshake",
                format!(
                    "the greeting was valid and completely received{}, the write side failed only afterwards, but connect returned {:?}",
                    if plan.password.is_some() { " and the password accepted" } else { "" },
                    other
                ),
            )),
        };
    }
    match &plan.password {
        None => {
            if out.server_lines.first().map(|s| s.as_str()) != Some("idle") {
                return Some(Violation::new(
                    "C18",
                    "first_line_without_password_is_not_idle",
                    format!("first line the server received: {:?}", out.server_lines.first()),
                ));
            }
            match &out.connect {
                ConnectOutcome::Ok(v) if *v == plan.version => None,
                other => Some(Violation::new(
                    "C18",
                    "connect_result",
                    format!("connect returned {:?}, greeting version {:?}", other, plan.version),
                )),
            }
        }
        Some(p) => {
            // the first line must be the password command carrying exactly that password, as the
            // server's tokenizer reads it (a password with blanks travels quoted)
            let first_ok = out
                .server_lines
                .first()
                .and_then(|l| crate::session::mpd::tokenize(l.as_bytes()).ok())
                .map(|(w, a)| w == "password" && a.len() == 1 && a[0] == p.password.as_bytes())
                .unwrap_or(false);
            let expected_line = out.server_lines.first().cloned().unwrap_or_default();
            if !first_ok {
                return Some(Violation::new(
                    "C18",
                    "password_not_first",
                    format!(
                        "first line the server received is {:?}, expected the password command with exactly {:?}",
                        out.server_lines.first(),
                        p.password
                    ),
                ));
            }
            let nothing_further = out.c2s.len() == expected_line.len() + 1;
            match &p.verdict {
                PwVerdict::Accept => {
                    match &out.connect {
                        ConnectOutcome::Ok(v) if *v == plan.version => {}
                        other => {
                            return Some(Violation::new(
                                "C18",
                                "connect_result",
                                format!("password accepted but connect returned {:?}", other),
                            ))
                        }
                    }
                    if out.server_lines.get(1).map(|s| s.as_str()) != Some("idle") {
                        return Some(Violation::new(
                            "C18",
                            "idle_not_after_password",
                            format!("second line the server received: {:?}", out.server_lines.get(1)),
                        ));
                    }
                    // the session then continues as a legal one
                    check_c05(plan, out).map(|mut v| {
                        v.property = "C18".into();
                        v.clause = format!("after_handshake_{}", v.clause);
                        v
                    })
                }
                PwVerdict::Reject(_) => {
                    if !matches!(out.connect, ConnectOutcome::IncorrectPassword) {
                        return Some(Violation::new(
                            "C18",
                            "rejected_password_result",
                            format!("server rejected the password but connect returned {:?}", out.connect),
                        ));
                    }
                    if !nothing_further {
                        return Some(Violation::new(
                            "C18",
                            "wrote_after_rejected_password",
                            format!(
                                "after the rejection the client wrote further bytes: {:?}",
                                crate::canon::show_bytes(&out.c2s[(expected_line.len() + 1).min(out.c2s.len())..], 60)
                            ),
                        ));
                    }
                    if out.endpoint_dropped.is_none() {
                        return Some(Violation::new(
                            "C18",
                            "transport_kept_after_rejected_password",
                            "the transport is still alive after IncorrectPassword was returned",
                        ));
                    }
                    None
                }
                PwVerdict::Close(_) | PwVerdict::Garbage => {
                    let ok = match (&p.verdict, &out.connect) {
                        (PwVerdict::Close(_), ConnectOutcome::Protocol(Terminal::UnexpectedEof)) => true,
                        (PwVerdict::Garbage, ConnectOutcome::Protocol(Terminal::Invalid)) => true,
                        _ => false,
                    };
                    if !ok {
                        return Some(Violation::new(
                            "C18",
                            "handshake_fault_result",
                            format!("verdict {:?} but connect returned {:?}", p.verdict, out.connect),
                        ));
                    }
                    if !nothing_further {
                        return Some(Violation::new(
                            "C18",
                            "wrote_after_failed_handshake",
                            "the client wrote further bytes after the handshake failed",
                        ));
                    }
                    None
                }
            }
        }
    }
}

/// Ops that were completed normally (for reach statistics).
pub fn count_ops(out: &RunOutput) -> (usize, usize, usize) {
    let ok = out
        .ops
        .iter()
        .filter(|o| matches!(o.result, OpResult::Frame(_) | OpResult::Frames(_) | OpResult::Art(_)))
        .count();
    let err = out.ops.iter().filter(|o| o.result.is_err()).count();
    let cancelled = out
        .ops
        .iter()
        .filter(|o| o.result == OpResult::Cancelled)
        .count();
    (ok, err, cancelled)
}

pub fn has_noidle_race(out: &RunOutput) -> bool {
    out.noidle_ignored > 0
}

#[allow(dead_code)]
pub fn idle_replies_by_trigger(out: &RunOutput, t: IdleTrigger) -> usize {
    out.responses
        .iter()
        .filter(|r| matches!(&r.kind, RespKind::Idle { trigger, .. } if *trigger == t))
        .count()
}

#[allow(dead_code)]
pub fn plan_has_cancel(plan: &Plan) -> bool {
    plan.callers
        .iter()
        .flatten()
        .any(|o| matches!(o, Op::Cancel { .. }))
}
