//! A *plan* holds every choice of one simulated session, drawn before the run: caller scripts,
//! server-side change events, reply shapes, the network policy, the fault plan and the tokio RNG
//! seed. Executing a plan is a pure function of the plan and the code under test.

use std::collections::BTreeMap;

use serde::{Deserialize, Serialize};

use crate::canon::hex_bytes;

#[derive(Clone, Debug, PartialEq, Eq, Serialize, Deserialize)]
pub enum Op {
    /// `raw_command("req <id>")`
    Request { id: u64 },
    /// typed `Client::command` with a harness-defined command whose response is the frame itself
    Typed { id: u64 },
    /// `raw_command_list` of `req <id>` commands
    List { ids: Vec<u64> },
    /// typed `Client::command_list(Vec<…>)`
    TypedList { ids: Vec<u64> },
    /// several requests first polled in this order and awaited together
    Burst { ops: Vec<Op> },
    AlbumArt { uri: String },
    /// issue `op`, drop its future after `after_ms` of virtual time unless it completed
    Cancel { op: Box<Op>, after_ms: u64 },
    Think { ms: u64 },
    Yield { n: u32 },
    /// drop this caller's handle; the script ends here
    DropHandle,
}

impl Op {
    pub fn ids(&self) -> Vec<u64> {
        match self {
            Op::Request { id } | Op::Typed { id } => vec![*id],
            Op::List { ids } | Op::TypedList { ids } => ids.clone(),
            Op::Burst { ops } => ops.iter().flat_map(|o| o.ids()).collect(),
            Op::Cancel { op, .. } => op.ids(),
            _ => Vec::new(),
        }
    }
    pub fn kind(&self) -> &'static str {
        match self {
            Op::Request { .. } => "request",
            Op::Typed { .. } => "typed",
            Op::List { .. } => "list",
            Op::TypedList { .. } => "typed_list",
            Op::Burst { .. } => "burst",
            Op::AlbumArt { .. } => "album_art",
            Op::Cancel { .. } => "cancel",
            Op::Think { .. } => "think",
            Op::Yield { .. } => "yield",
            Op::DropHandle => "drop_handle",
        }
    }
}

#[derive(Clone, Debug, PartialEq, Eq, Serialize, Deserialize, Default)]
pub struct ReplyShape {
    /// number of fields besides the leading `id` field
    pub fields: u32,
    /// length of each field value
    pub value_len: u32,
    /// binary payload of this many bytes, if any
    pub binary: Option<u32>,
    /// the command fails with this ACK code
    pub fail: Option<u64>,
    /// server processing time before the reply is written
    pub delay_ms: u32,
    /// a failing command prints this many field lines before its ACK (legal: MPD reports the
    /// error when it hits it, output produced so far has already been sent)
    #[serde(default)]
    pub partial_fields: u32,
    /// every field of this reply has a key of its own (field-name vocabularies grow over a
    /// long connection)
    #[serde(default)]
    pub distinct_keys: bool,
}

#[derive(Clone, Debug, PartialEq, Eq, Serialize, Deserialize)]
pub struct ChangeEvent {
    pub at_ms: u64,
    pub names: Vec<String>,
}

#[derive(Clone, Debug, PartialEq, Eq, Serialize, Deserialize)]
pub enum SegMode {
    /// each server write is one segment
    Whole,
    /// cyclic list of segment sizes
    Sizes(Vec<usize>),
    /// one segment per line feed
    Lines,
    /// everything but the last line, then the last line
    BeforeLastLine,
}

#[derive(Clone, Debug, PartialEq, Eq, Serialize, Deserialize)]
pub struct NetPolicy {
    pub s2c_mode: SegMode,
    /// cyclic: extra delay of each segment after the previous one
    pub s2c_delay_ms: Vec<u32>,
    /// base latency server → client
    pub s2c_latency_ms: u32,
    /// cyclic: spurious `Pending` (with self-wake) before a successful read
    pub read_pending: Vec<u8>,
    /// cyclic: latency client → server per write
    pub c2s_latency_ms: Vec<u32>,
    /// cyclic: most bytes accepted per `poll_write` (short writes)
    pub write_chunk: Vec<usize>,
    /// cyclic: how many times a write first returns `Pending` (back-pressure, timed wake)
    pub write_pending: Vec<u8>,
    pub write_pending_ms: u32,
    /// the end of the stream (FIN) becomes visible this long after it was decided — and never
    /// before the last byte before it is due; on a real network it can trail the data
    #[serde(default)]
    pub eof_delay_ms: u32,
    /// the transport supports vectored writes natively (`is_write_vectored()`): the slices of
    /// one `poll_write_vectored` call are taken as one contiguous offer, so a short count may
    /// end in the middle of any slice; otherwise tokio's default applies (first non-empty slice)
    #[serde(default)]
    pub vectored: bool,
}

impl Default for NetPolicy {
    fn default() -> Self {
        NetPolicy {
            s2c_mode: SegMode::Whole,
            s2c_delay_ms: vec![0],
            s2c_latency_ms: 0,
            read_pending: vec![0],
            c2s_latency_ms: vec![0],
            write_chunk: vec![usize::MAX],
            write_pending: vec![0],
            write_pending_ms: 1,
            eof_delay_ms: 0,
            vectored: false,
        }
    }
}

#[derive(Clone, Debug, PartialEq, Eq, Serialize, Deserialize)]
pub enum Trigger {
    AtTime(u64),
    /// once the server's output stream has reached this offset
    AtS2cOffset(usize),
    /// at the k-th `poll_write` call of the client (0-based)
    AtWrite(u64),
    /// right after the server has written its n-th response (0-based, greeting not counted)
    AfterResponse(u32),
}

#[derive(Clone, Debug, PartialEq, Eq, Serialize, Deserialize)]
pub enum FaultKind {
    /// server closes: everything written so far is delivered, then EOF
    CloseClean,
    /// stream ends at the trigger offset (possibly mid-line / mid-payload)
    Cut,
    ReadErr(String),
    WriteErr(String),
    /// both directions fail
    Reset,
    Garbage(#[serde(with = "hex_bytes")] Vec<u8>),
    /// from the trigger on the server answers `idle` (and a pending idle) with this ACK, e.g.
    /// permission denied; the transport itself stays healthy
    IdleDenied(u64),
}

impl FaultKind {
    pub fn name(&self) -> &'static str {
        match self {
            FaultKind::CloseClean => "close_clean",
            FaultKind::Cut => "cut",
            FaultKind::ReadErr(_) => "read_err",
            FaultKind::WriteErr(_) => "write_err",
            FaultKind::Reset => "reset",
            FaultKind::Garbage(_) => "garbage",
            FaultKind::IdleDenied(_) => "idle_denied",
        }
    }
}

#[derive(Clone, Debug, PartialEq, Eq, Serialize, Deserialize)]
pub struct Fault {
    pub kind: FaultKind,
    pub trigger: Trigger,
}

#[derive(Clone, Debug, PartialEq, Eq, Serialize, Deserialize)]
pub enum PwVerdict {
    Accept,
    Reject(u64),
    /// close instead of answering: on the boundary (0) or after this many bytes of an `OK\n`
    Close(usize),
    Garbage,
}

#[derive(Clone, Debug, PartialEq, Eq, Serialize, Deserialize)]
pub struct PasswordPlan {
    pub password: String,
    pub verdict: PwVerdict,
    /// use `connect_with_password_opt(Some(..))` instead of `connect_with_password`
    pub via_opt: bool,
}

#[derive(Clone, Debug, PartialEq, Eq, Serialize, Deserialize)]
pub struct Embedded {
    #[serde(with = "hex_bytes")]
    pub data: Vec<u8>,
    pub mime: Option<String>,
}

#[derive(Clone, Debug, PartialEq, Eq, Serialize, Deserialize)]
pub struct Picture {
    pub uri: String,
    /// embedded picture: bytes and optional MIME type
    pub embedded: Option<Embedded>,
    /// cover file
    pub cover: Cover,
    /// `readpicture` unknown to the server (`ACK [5@0]`)
    pub readpicture_unknown: bool,
    /// forced error code on `readpicture` / `albumart`
    pub readpicture_error: Option<u64>,
    pub albumart_error: Option<u64>,
    /// chunk requests at an offset > 0 and >= .0 fail with ACK code .1 (file vanished, I/O error)
    #[serde(default)]
    pub later_error: Option<(u64, u64)>,
    /// cyclic caps on the chunk sizes the server hands out (each at least 1, never above the
    /// binary limit): a server may return less than the limit
    #[serde(default)]
    pub chunk_caps: Vec<usize>,
    /// a forced error is reported after the `size:` line has already been printed
    #[serde(default)]
    pub header_before_error: bool,
    /// the optional `type:` line is only sent with the chunk at offset 0
    #[serde(default)]
    pub mime_only_first_chunk: bool,
    /// the embedded picture disappears while it is being read (the file was retagged):
    /// `readpicture` at an offset > 0 and >= this answers with a bare `OK`
    #[serde(default)]
    pub embedded_vanishes_at: Option<u64>,
}

#[derive(Clone, Debug, PartialEq, Eq, Serialize, Deserialize)]
pub enum Cover {
    /// bare `OK`
    NoneOk,
    /// `ACK [50@0] {albumart} No file exists`
    NoneAck,
    Bytes(#[serde(with = "hex_bytes")] Vec<u8>),
}

#[derive(Clone, Debug, PartialEq, Eq, Serialize, Deserialize)]
pub enum Consumer {
    /// drain all events until the stream ends
    Drain,
    /// drop the receiver at this time (the API allows it)
    DropAt(u64),
    /// keep the receiver but do not poll it before this time (a backlog builds up)
    StartAt(u64),
    /// keep the receiver alive and never poll it (an application that only wants the handle)
    Never,
    /// an application whose event loop has other things to do: until `until_ms` it waits for
    /// the next event only up to the next tick (every `period_ms`) and then starts a new wait,
    /// i.e. it keeps dropping unfinished `next()` futures, as a `select!` with a ticker or a
    /// `timeout` around `next()` does (`form` 0: `timeout_at`, 1: `select!` against a sleep,
    /// 2: at every tick `next()` is polled exactly once — `select! { biased; e = next() => ..,
    /// _ = ready(()) => .. }`, the "anything there? otherwise do other work" idiom).
    /// Afterwards it drains like `Drain`.
    Ticking {
        period_ms: u64,
        until_ms: u64,
        form: u8,
    },
}

#[derive(Clone, Debug, PartialEq, Eq, Serialize, Deserialize)]
pub struct Plan {
    pub tokio_seed: u64,
    pub version: String,
    pub password: Option<PasswordPlan>,
    /// `connect_with_password_opt(None)` instead of `connect`
    pub connect_via_opt: bool,
    pub callers: Vec<Vec<Op>>,
    pub changes: Vec<ChangeEvent>,
    pub replies: BTreeMap<u64, ReplyShape>,
    pub pictures: Vec<Picture>,
    pub binary_limit: usize,
    pub net: NetPolicy,
    pub faults: Vec<Fault>,
    pub consumer: Consumer,
    /// ask the epilogue for the "later request" probe
    pub probe_request: bool,
    /// the director keeps its own handle until the epilogue (otherwise the callers' clones are
    /// the only handles)
    #[serde(default = "yes")]
    pub keep_main_handle: bool,
    /// a slow server: the greeting is written this long after the connection was made, and the
    /// verdict on the password takes as long again
    #[serde(default)]
    pub handshake_delay_ms: u32,
}

fn yes() -> bool {
    true
}

impl Plan {
    pub fn empty(tokio_seed: u64) -> Plan {
        Plan {
            tokio_seed,
            version: "0.23.5".into(),
            password: None,
            connect_via_opt: false,
            callers: Vec::new(),
            changes: Vec::new(),
            replies: BTreeMap::new(),
            pictures: Vec::new(),
            binary_limit: 8192,
            net: NetPolicy::default(),
            faults: Vec::new(),
            consumer: Consumer::Drain,
            probe_request: true,
            keep_main_handle: true,
            handshake_delay_ms: 0,
        }
    }

    pub fn shape(&self, id: u64) -> ReplyShape {
        self.replies.get(&id).cloned().unwrap_or_default()
    }

    pub fn fault_free(&self) -> bool {
        self.faults.is_empty()
    }
}
