//! `SimMpd`: an executable reference model of the MPD protocol rules the properties refer to
//! (greeting, password, idle/noidle discipline, command lists with `list_OK` / `ACK [c@i]`, binary
//! chunking with `binarylimit`). Written from the MPD protocol reference and the semantics of
//! MPD's `client_process_line`, not from the repository under test. It is a pure state machine:
//! the network (`net.rs`) feeds it lines and applies the actions it returns.

use std::collections::VecDeque;

use crate::canon::{CErr, CFrame, CResp};
use crate::session::plan::{Cover, Plan, PwVerdict};
use crate::wire::gen::encode_ack;

/// MPD's fixed subsystem order (`idle_names`).
pub const SUBSYSTEMS: &[&str] = &[
    "database",
    "stored_playlist",
    "playlist",
    "player",
    "mixer",
    "output",
    "options",
    "sticker",
    "update",
    "subscription",
    "message",
    "neighbor",
    "mount",
    "partition",
];

#[derive(Clone, Debug, PartialEq, Eq)]
pub enum IdleTrigger {
    /// flags were pending when `idle` arrived
    Immediate,
    /// a change event arrived while idle-waiting
    Change,
    /// `noidle`
    Noidle,
    /// the server refuses idle with an ACK (injected)
    Denied,
}

#[derive(Clone, Debug, PartialEq, Eq)]
pub enum RespKind {
    Greeting,
    Idle {
        changes: Vec<String>,
        trigger: IdleTrigger,
    },
    Unit(usize),
    /// anything else the server says (errors for malformed input, password-less permission errors)
    Other,
}

#[derive(Clone, Debug)]
pub struct RespMeta {
    pub kind: RespKind,
    /// payload ranges relative to the start of these bytes
    pub payloads: Vec<(usize, usize)>,
    /// close the connection after this many bytes of the write (handshake faults)
    pub close_after: Option<usize>,
}

#[derive(Clone, Debug)]
pub enum Action {
    Write(Vec<u8>, RespMeta),
    /// call `reply_ready` after this many ms
    Defer(u32),
    /// server closes the connection (cleanly, after what it has written)
    Close(String),
}

#[derive(Clone, Debug, PartialEq, Eq)]
pub enum UnitKind {
    Req,
    List,
    ReadPicture { uri: String, offset: u64 },
    AlbumArt { uri: String, offset: u64 },
    BinaryLimit,
    Ping,
    Password,
    Unknown,
}

#[derive(Clone, Debug)]
pub struct UnitRecord {
    pub index: usize,
    pub lines: Vec<String>,
    /// ids of `req` commands in this unit, in order
    pub ids: Vec<u64>,
    pub kind: UnitKind,
    pub arrival_ms: u64,
    /// canonical form of the reply the server produced
    pub reply: CResp,
}

#[derive(Clone, Debug, PartialEq, Eq)]
enum Auth {
    NotRequired,
    Required,
    Accepted,
}

pub struct SimMpd {
    plan: Plan,
    partial: Vec<u8>,
    queue: VecDeque<Vec<u8>>,
    pub idle_waiting: bool,
    pub flags: Vec<String>,
    list_acc: Option<Vec<Vec<u8>>>,
    pub busy: bool,
    pending_reply: Option<(Vec<u8>, RespMeta)>,
    pub closed: bool,
    pub binary_limit: usize,
    auth: Auth,
    pub units: Vec<UnitRecord>,
    /// protocol violations by the client, as the server sees them (J2, J4, password order)
    pub violations: Vec<(String, String)>,
    /// every line the server received, in order
    pub lines_seen: Vec<String>,
    pub noidle_ignored: u64,
    pub noidle_answered: u64,
    pub idle_immediate: u64,
    now_ms: u64,
    /// injected: idle is answered with this ACK code
    pub idle_denied: Option<u64>,
    /// per-URI count of chunk requests served (for `chunk_caps`)
    chunk_counts: std::collections::BTreeMap<String, usize>,
}

pub fn tokenize(line: &[u8]) -> Result<(String, Vec<Vec<u8>>), String> {
    // strip trailing whitespace
    let mut end = line.len();
    while end > 0 && line[end - 1] <= 0x20 {
        end -= 1;
    }
    let line = &line[..end];
    let mut i = 0;
    // NextWord
    if line.is_empty() {
        return Err("No command given".into());
    }
    if !line[0].is_ascii_alphabetic() {
        return Err("Letter expected".into());
    }
    while i < line.len() && (line[i].is_ascii_alphanumeric() || line[i] == b'_') {
        i += 1;
    }
    if i < line.len() && line[i] > 0x20 {
        return Err("Invalid word character".into());
    }
    let word = String::from_utf8(line[..i].to_vec()).unwrap();
    let skip_ws = |i: &mut usize| {
        while *i < line.len() && line[*i] <= 0x20 {
            *i += 1;
        }
    };
    skip_ws(&mut i);
    let mut args = Vec::new();
    while i < line.len() {
        if line[i] == b'"' {
            // NextString
            i += 1;
            let mut out = Vec::new();
            loop {
                if i >= line.len() {
                    return Err("Missing closing '\"'".into());
                }
                let c = line[i];
                if c == b'"' {
                    i += 1;
                    break;
                }
                if c == b'\\' {
                    i += 1;
                    if i >= line.len() {
                        return Err("Missing closing '\"'".into());
                    }
                    out.push(line[i]);
                    i += 1;
                    continue;
                }
                out.push(c);
                i += 1;
            }
            if i < line.len() && line[i] > 0x20 {
                return Err("Space expected after closing '\"'".into());
            }
            args.push(out);
        } else {
            // NextUnquoted
            let s = i;
            while i < line.len() && line[i] > 0x20 {
                if line[i] == b'"' || line[i] == b'\'' {
                    return Err("Invalid unquoted character".into());
                }
                i += 1;
            }
            args.push(line[s..i].to_vec());
        }
        skip_ws(&mut i);
    }
    Ok((word, args))
}

/// The frame (canonical + encoded) a successful `req <id>` produces.
fn alpha_key(mut n: u64) -> String {
    let mut s = String::from("k");
    loop {
        s.push((b'a' + (n % 26) as u8) as char);
        n /= 26;
        if n == 0 {
            break;
        }
    }
    s
}

pub fn req_frame(id: u64, fields: u32, value_len: u32, binary: Option<u32>) -> (CFrame, Vec<u8>, Vec<(usize, usize)>) {
    req_frame_keys(id, fields, value_len, binary, false)
}

pub fn req_frame_keys(id: u64, fields: u32, value_len: u32, binary: Option<u32>, distinct_keys: bool) -> (CFrame, Vec<u8>, Vec<(usize, usize)>) {
    let mut f = CFrame::default();
    let mut bytes = Vec::new();
    let mut payloads = Vec::new();
    f.fields.push(("id".into(), id.to_string()));
    bytes.extend_from_slice(format!("id: {}\n", id).as_bytes());
    for k in 0..fields {
        let mut v = format!("{}:{}:", id, k);
        for j in 0..value_len {
            v.push((b'a' + ((j + k) % 26) as u8) as char);
        }
        // values are free text up to the line end: some end in a blank, a tab, a CR, or carry
        // the separator and protocol words inside (a song title is whatever the tagger wrote)
        match (id + k as u64) % 9 {
            2 => v.push(' '),
            4 => v.push('\t'),
            5 => v.push('\r'),
            7 => v.push_str(": OK "),
            _ => {}
        }
        let key = if distinct_keys {
            alpha_key(id * 64 + k as u64)
        } else {
            "v".to_string()
        };
        bytes.extend_from_slice(format!("{}: {}\n", key, v).as_bytes());
        f.fields.push((key, v));
    }
    if let Some(n) = binary {
        let data: Vec<u8> = (0..n as u64)
            .map(|i| ((id.wrapping_mul(31) + i.wrapping_mul(7)) & 0xff) as u8)
            .map(|b| if b % 11 == 0 { b'\n' } else { b })
            .collect();
        bytes.extend_from_slice(format!("binary: {}\n", data.len()).as_bytes());
        let s = bytes.len();
        bytes.extend_from_slice(&data);
        payloads.push((s, s + data.len()));
        bytes.push(b'\n');
        f.binary = Some(data);
    }
    (f, bytes, payloads)
}

fn ack(code: u64, index: u64, command: &str, message: &str) -> CErr {
    CErr {
        code,
        index,
        command: if command.is_empty() {
            None
        } else {
            Some(command.to_string())
        },
        message: message.to_string(),
    }
}

struct CmdOut {
    frame: CFrame,
    bytes: Vec<u8>,
    payloads: Vec<(usize, usize)>,
}

impl SimMpd {
    pub fn new(plan: &Plan) -> SimMpd {
        SimMpd {
            plan: plan.clone(),
            partial: Vec::new(),
            queue: VecDeque::new(),
            idle_waiting: false,
            flags: Vec::new(),
            list_acc: None,
            busy: false,
            pending_reply: None,
            closed: false,
            binary_limit: plan.binary_limit.max(1),
            auth: if plan.password.is_some() {
                Auth::Required
            } else {
                Auth::NotRequired
            },
            units: Vec::new(),
            violations: Vec::new(),
            lines_seen: Vec::new(),
            noidle_ignored: 0,
            noidle_answered: 0,
            idle_immediate: 0,
            now_ms: 0,
            idle_denied: None,
            chunk_counts: Default::default(),
        }
    }

    pub fn greeting(&self) -> (Vec<u8>, RespMeta) {
        (
            format!("OK MPD {}\n", self.plan.version).into_bytes(),
            RespMeta {
                kind: RespKind::Greeting,
                payloads: Vec::new(),
                close_after: None,
            },
        )
    }

    /// Bytes arrived from the client.
    pub fn feed(&mut self, bytes: &[u8], now_ms: u64) -> Vec<Action> {
        self.now_ms = now_ms;
        if self.closed {
            return Vec::new();
        }
        for &b in bytes {
            if b == b'\n' {
                let line = std::mem::take(&mut self.partial);
                self.queue.push_back(line);
            } else {
                self.partial.push(b);
            }
        }
        self.drain()
    }

    /// The deferred reply is due: write it, then continue with queued lines.
    pub fn reply_ready(&mut self, now_ms: u64) -> Vec<Action> {
        self.now_ms = now_ms;
        let mut out = Vec::new();
        if self.closed {
            return out;
        }
        if let Some((bytes, meta)) = self.pending_reply.take() {
            let close = meta.close_after.is_some();
            out.push(Action::Write(bytes, meta));
            if close {
                self.closed = true;
                out.push(Action::Close("handshake fault".into()));
                return out;
            }
        }
        self.busy = false;
        out.extend(self.drain());
        out
    }

    /// A server-side change event.
    pub fn change(&mut self, names: &[String], now_ms: u64) -> Vec<Action> {
        self.now_ms = now_ms;
        if self.closed {
            return Vec::new();
        }
        for n in names {
            if !self.flags.contains(n) {
                self.flags.push(n.clone());
            }
        }
        if self.idle_waiting && !self.flags.is_empty() {
            self.idle_waiting = false;
            return vec![self.idle_reply(IdleTrigger::Change)];
        }
        Vec::new()
    }

    /// Injected: refuse idle from now on; a pending idle is refused at once.
    pub fn deny_idle(&mut self, code: u64, now_ms: u64) -> Vec<Action> {
        self.now_ms = now_ms;
        self.idle_denied = Some(code);
        if self.idle_waiting && !self.closed {
            self.idle_waiting = false;
            return vec![self.denied_reply(code)];
        }
        Vec::new()
    }

    fn denied_reply(&mut self, code: u64) -> Action {
        let e = ack(code, 0, "idle", "you don't have permission for \"idle\"");
        let mut bytes = Vec::new();
        encode_ack(&e, &mut bytes);
        Action::Write(
            bytes,
            RespMeta {
                kind: RespKind::Idle {
                    changes: Vec::new(),
                    trigger: IdleTrigger::Denied,
                },
                payloads: Vec::new(),
                close_after: None,
            },
        )
    }

    fn idle_reply(&mut self, trigger: IdleTrigger) -> Action {
        let mut flags = std::mem::take(&mut self.flags);
        // MPD reports in its fixed subsystem order; names it does not know keep insertion order
        let rank = |n: &String| {
            SUBSYSTEMS
                .iter()
                .position(|s| *s == n.as_str())
                .unwrap_or(SUBSYSTEMS.len())
        };
        flags.sort_by_key(rank);
        let mut bytes = Vec::new();
        for f in &flags {
            bytes.extend_from_slice(format!("changed: {}\n", f).as_bytes());
        }
        bytes.extend_from_slice(b"OK\n");
        Action::Write(
            bytes,
            RespMeta {
                kind: RespKind::Idle {
                    changes: flags,
                    trigger,
                },
                payloads: Vec::new(),
                close_after: None,
            },
        )
    }

    fn drain(&mut self) -> Vec<Action> {
        let mut out = Vec::new();
        while !self.busy && !self.closed {
            let Some(line) = self.queue.pop_front() else {
                break;
            };
            out.extend(self.process_line(&line));
        }
        out
    }

    fn violation(&mut self, clause: &str, detail: String) {
        self.violations.push((clause.to_string(), detail));
    }

    fn process_line(&mut self, line: &[u8]) -> Vec<Action> {
        let text = String::from_utf8_lossy(line).to_string();
        self.lines_seen.push(text.clone());
        let tok = tokenize(line);
        if self.idle_waiting {
            return match &tok {
                Ok((w, _)) if w == "noidle" => {
                    self.idle_waiting = false;
                    self.noidle_answered += 1;
                    vec![self.idle_reply(IdleTrigger::Noidle)]
                }
                _ => {
                    self.violation(
                        "J2_command_during_idle",
                        format!("line {:?} arrived while the server was waiting in idle", text),
                    );
                    self.closed = true;
                    vec![Action::Close("command during idle".into())]
                }
            };
        }
        if let Some(acc) = &mut self.list_acc {
            if matches!(&tok, Ok((w, _)) if w == "command_list_end") {
                let lines = self.list_acc.take().unwrap();
                return self.exec_unit(lines, true);
            }
            acc.push(line.to_vec());
            return Vec::new();
        }
        let (word, args) = match tok {
            Ok(t) => t,
            Err(e) => {
                self.violation(
                    "J4_untokenizable_line",
                    format!("line {:?} is rejected by the request tokenizer: {}", text, e),
                );
                return vec![self.other_error(ack(5, 0, "", &e))];
            }
        };
        match word.as_str() {
            "idle" => {
                if self.auth == Auth::Required {
                    self.violation(
                        "idle_before_password_accepted",
                        "idle arrived before the password was accepted".into(),
                    );
                }
                if !args.is_empty() {
                    self.violation(
                        "J4_untokenizable_line",
                        format!("unexpected arguments to idle: {:?}", text),
                    );
                }
                if let Some(code) = self.idle_denied {
                    vec![self.denied_reply(code)]
                } else if self.flags.is_empty() {
                    self.idle_waiting = true;
                    Vec::new()
                } else {
                    self.idle_immediate += 1;
                    vec![self.idle_reply(IdleTrigger::Immediate)]
                }
            }
            "noidle" => {
                self.noidle_ignored += 1;
                Vec::new()
            }
            "command_list_ok_begin" => {
                self.list_acc = Some(Vec::new());
                Vec::new()
            }
            "command_list_begin" | "command_list_end" => {
                self.violation(
                    "J4_untokenizable_line",
                    format!("unexpected list framing line {:?}", text),
                );
                vec![self.other_error(ack(5, 0, "", "unexpected command list framing"))]
            }
            _ => self.exec_unit(vec![line.to_vec()], false),
        }
    }

    fn other_error(&mut self, e: CErr) -> Action {
        let mut bytes = Vec::new();
        encode_ack(&e, &mut bytes);
        // an error reply still answers one unit from the client's point of view
        let index = self.units.len();
        self.units.push(UnitRecord {
            index,
            lines: vec![self.lines_seen.last().cloned().unwrap_or_default()],
            ids: Vec::new(),
            kind: UnitKind::Unknown,
            arrival_ms: self.now_ms,
            reply: CResp {
                frames: Vec::new(),
                error: Some(e),
            },
        });
        Action::Write(
            bytes,
            RespMeta {
                kind: RespKind::Unit(index),
                payloads: Vec::new(),
                close_after: None,
            },
        )
    }

    /// Execute one command; `index` is its position in a list.
    fn exec_cmd(&mut self, line: &[u8], index: u64, kind: &mut UnitKind, ids: &mut Vec<u64>, delay: &mut u32, partial: &mut Vec<u8>) -> Result<CmdOut, CErr> {
        let (word, args) = match tokenize(line) {
            Ok(t) => t,
            Err(e) => {
                let text = String::from_utf8_lossy(line).to_string();
                self.violation(
                    "J4_untokenizable_line",
                    format!("line {:?} is rejected by the request tokenizer: {}", text, e),
                );
                return Err(ack(5, index, "", &e));
            }
        };
        let arg_str = |i: usize| -> Option<String> {
            args.get(i).map(|a| String::from_utf8_lossy(a).to_string())
        };
        let arg_u64 = |i: usize| -> Option<u64> { arg_str(i).and_then(|s| s.parse().ok()) };
        if self.auth == Auth::Required && word != "password" {
            self.violation(
                "command_before_password_accepted",
                format!("{:?} arrived before the password was accepted", word),
            );
            return Err(ack(
                4,
                index,
                &word,
                &format!("you don't have permission for \"{}\"", word),
            ));
        }
        let empty = || CmdOut {
            frame: CFrame::default(),
            bytes: Vec::new(),
            payloads: Vec::new(),
        };
        match word.as_str() {
            "req" => {
                *kind = UnitKind::Req;
                let Some(id) = arg_u64(0) else {
                    return Err(ack(2, index, "req", "bad id"));
                };
                ids.push(id);
                let shape = self.plan.shape(id);
                *delay = (*delay).max(shape.delay_ms);
                if let Some(code) = shape.fail {
                    for k in 0..shape.partial_fields {
                        partial.extend_from_slice(format!("partial: {}:{}\n", id, k).as_bytes());
                    }
                    // The `{command}` of an error line is whatever name the server has for the
                    // command: MPD's own names contain underscores (`replay_gain_status`), and
                    // errors raised before a command was recognised carry none (`{}`). The
                    // workload's one command word stands for all of them, so the name reported
                    // varies with the id.
                    let name = match id % 7 {
                        3 => "replay_gain_req",
                        5 => "",
                        6 => "Req_X_",
                        _ => "req",
                    };
                    // ... and the message is free text up to the line end
                    let suffix = match (id / 7) % 5 {
                        2 => " {x} [1@0]",
                        3 => "  ",
                        4 => " \u{e4}: y",
                        _ => "",
                    };
                    return Err(ack(code, index, name, &format!("failed {}{}", id, suffix)));
                }
                let (frame, bytes, payloads) = req_frame_keys(
                    id,
                    shape.fields,
                    shape.value_len,
                    shape.binary,
                    shape.distinct_keys,
                );
                Ok(CmdOut {
                    frame,
                    bytes,
                    payloads,
                })
            }
            "ping" => {
                *kind = UnitKind::Ping;
                Ok(empty())
            }
            "binarylimit" => {
                *kind = UnitKind::BinaryLimit;
                match arg_u64(0) {
                    Some(n) if n >= 1 => {
                        self.binary_limit = n as usize;
                        Ok(empty())
                    }
                    _ => Err(ack(2, index, "binarylimit", "Value too small")),
                }
            }
            "password" => {
                *kind = UnitKind::Password;
                *delay = (*delay).max(self.plan.handshake_delay_ms);
                let given = arg_str(0).unwrap_or_default();
                match self.plan.password.clone() {
                    None => Err(ack(3, index, "password", "incorrect password")),
                    Some(p) => {
                        if args.len() != 1 || given != p.password {
                            self.violation(
                                "password_not_verbatim",
                                format!(
                                    "password command carried {:?}, expected exactly {:?}",
                                    args.iter()
                                        .map(|a| String::from_utf8_lossy(a).to_string())
                                        .collect::<Vec<_>>(),
                                    p.password
                                ),
                            );
                        }
                        match p.verdict {
                            PwVerdict::Accept | PwVerdict::Close(_) | PwVerdict::Garbage => {
                                self.auth = Auth::Accepted;
                                Ok(empty())
                            }
                            PwVerdict::Reject(code) => {
                                Err(ack(code, index, "password", "incorrect password"))
                            }
                        }
                    }
                }
            }
            "readpicture" | "albumart" => {
                let uri = arg_str(0).unwrap_or_default();
                let offset = arg_u64(1).unwrap_or(u64::MAX);
                let embedded = word == "readpicture";
                *kind = if embedded {
                    UnitKind::ReadPicture {
                        uri: uri.clone(),
                        offset,
                    }
                } else {
                    UnitKind::AlbumArt {
                        uri: uri.clone(),
                        offset,
                    }
                };
                if args.len() != 2 || offset == u64::MAX {
                    return Err(ack(2, index, &word, "wrong number of arguments"));
                }
                let Some(pic) = self.plan.pictures.iter().find(|p| p.uri == uri).cloned() else {
                    return Err(ack(50, index, &word, "No such file"));
                };
                let (data, mime): (Vec<u8>, Option<String>) = if embedded {
                    if pic.readpicture_unknown {
                        return Err(ack(5, index, "", "unknown command \"readpicture\""));
                    }
                    if let Some(c) = pic.readpicture_error {
                        if pic.header_before_error {
                            partial.extend_from_slice(b"size: 4242\n");
                        }
                        return Err(ack(c, index, "readpicture", "forced error"));
                    }
                    if let Some(t) = pic.embedded_vanishes_at {
                        if offset > 0 && offset >= t {
                            return Ok(empty());
                        }
                    }
                    match pic.embedded {
                        None => return Ok(empty()),
                        Some(e) => (e.data, e.mime),
                    }
                } else {
                    if let Some(c) = pic.albumart_error {
                        if pic.header_before_error {
                            partial.extend_from_slice(b"size: 4242\n");
                        }
                        return Err(ack(c, index, "albumart", "forced error"));
                    }
                    match pic.cover {
                        Cover::NoneOk => return Ok(empty()),
                        Cover::NoneAck => {
                            return Err(ack(50, index, "albumart", "No file exists"))
                        }
                        Cover::Bytes(d) => (d, None),
                    }
                };
                let size = data.len() as u64;
                if let Some((threshold, code)) = pic.later_error {
                    if offset > 0 && offset >= threshold && offset < size {
                        if pic.header_before_error {
                            partial.extend_from_slice(format!("size: {}\n", size).as_bytes());
                            if let Some(m) = &mime {
                                partial.extend_from_slice(format!("type: {}\n", m).as_bytes());
                            }
                        }
                        return Err(ack(code, index, &word, "forced error on a later chunk"));
                    }
                }
                if offset > size {
                    return Err(ack(2, index, &word, "Bad file offset"));
                }
                let mut n = (self.binary_limit as u64).min(size - offset) as usize;
                if !pic.chunk_caps.is_empty() && n > 0 {
                    let c = self.chunk_counts.entry(uri.clone()).or_insert(0);
                    let cap = pic.chunk_caps[*c % pic.chunk_caps.len()].max(1);
                    *c += 1;
                    n = n.min(cap);
                }
                let chunk = &data[offset as usize..offset as usize + n];
                let mut f = CFrame::default();
                let mut bytes = Vec::new();
                f.fields.push(("size".into(), size.to_string()));
                bytes.extend_from_slice(format!("size: {}\n", size).as_bytes());
                if let Some(m) = &mime {
                    if offset == 0 || !pic.mime_only_first_chunk {
                        f.fields.push(("type".into(), m.clone()));
                        bytes.extend_from_slice(format!("type: {}\n", m).as_bytes());
                    }
                }
                bytes.extend_from_slice(format!("binary: {}\n", n).as_bytes());
                let s = bytes.len();
                bytes.extend_from_slice(chunk);
                bytes.push(b'\n');
                f.binary = Some(chunk.to_vec());
                Ok(CmdOut {
                    frame: f,
                    bytes,
                    payloads: vec![(s, s + n)],
                })
            }
            other => {
                *kind = UnitKind::Unknown;
                Err(ack(
                    5,
                    index,
                    "",
                    &format!("unknown command \"{}\"", other),
                ))
            }
        }
    }

    fn exec_unit(&mut self, lines: Vec<Vec<u8>>, is_list: bool) -> Vec<Action> {
        let index = self.units.len();
        let mut kind = UnitKind::Unknown;
        let mut ids = Vec::new();
        let mut delay = 0u32;
        let mut bytes = Vec::new();
        let mut payloads = Vec::new();
        let mut reply = CResp::default();
        for (i, line) in lines.iter().enumerate() {
            let mut k = UnitKind::Unknown;
            let mut partial = Vec::new();
            match self.exec_cmd(line, i as u64, &mut k, &mut ids, &mut delay, &mut partial) {
                Ok(out) => {
                    let base = bytes.len();
                    bytes.extend_from_slice(&out.bytes);
                    payloads.extend(out.payloads.iter().map(|(s, e)| (s + base, e + base)));
                    reply.frames.push(out.frame);
                    if is_list {
                        bytes.extend_from_slice(b"list_OK\n");
                    }
                }
                Err(e) => {
                    // output the failing command produced before it failed, then the error
                    bytes.extend_from_slice(&partial);
                    encode_ack(&e, &mut bytes);
                    reply.error = Some(e);
                    if i == 0 || !is_list {
                        kind = k.clone();
                    }
                    break;
                }
            }
            if i == 0 {
                kind = k;
            }
        }
        if is_list {
            kind = UnitKind::List;
        }
        if reply.error.is_none() {
            bytes.extend_from_slice(b"OK\n");
            if is_list && lines.is_empty() {
                reply.frames.push(CFrame::default());
            }
        }
        let mut close_after = None;
        if kind == UnitKind::Password {
            if let Some(p) = &self.plan.password {
                match p.verdict {
                    PwVerdict::Close(n) => {
                        let n = n.min(2);
                        bytes.truncate(n);
                        close_after = Some(n);
                    }
                    PwVerdict::Garbage => {
                        bytes = b"\xff\xfe garbage\n".to_vec();
                    }
                    _ => {}
                }
            }
        }
        self.units.push(UnitRecord {
            index,
            lines: lines
                .iter()
                .map(|l| String::from_utf8_lossy(l).to_string())
                .collect(),
            ids,
            kind,
            arrival_ms: self.now_ms,
            reply,
        });
        self.busy = true;
        self.pending_reply = Some((
            bytes,
            RespMeta {
                kind: RespKind::Unit(index),
                payloads,
                close_after,
            },
        ));
        vec![Action::Defer(delay)]
    }
}
