//! `SimNet`: the simulated transport between the real client and `SimMpd`, the discrete-event
//! queue driven by tokio's paused clock, the fault injector, the event log, and the *judge* that
//! checks the client's output stream against the MPD session rules (C05) as it is written.

use std::collections::{BinaryHeap, VecDeque};
use std::io;
use std::pin::Pin;
use std::sync::{Arc, Mutex};
use std::task::{Context, Poll, Waker};

use tokio::io::{AsyncRead, AsyncWrite, ReadBuf};
use tokio::sync::Notify;
use tokio::time::Instant;

use crate::canon::show_bytes;
use crate::prng::Fnv;
use crate::session::mpd::{Action, RespKind, RespMeta, SimMpd};
use crate::session::plan::{Fault, FaultKind, Plan, SegMode, Trigger};

#[derive(Clone, Debug)]
pub enum Ev {
    ClientWrite { start: usize, end: usize, text: String },
    ClientLine(String),
    WritePending,
    ServerRecv(String),
    ServerWrite { kind: String, start: usize, end: usize },
    ClientRead { start: usize, end: usize, completes: Vec<String> },
    ReadSpurious,
    ReadEof,
    ReadErr(String),
    WriteErr(String),
    /// the (first) line a failing write was trying to put on the wire, including the part of
    /// that line earlier short writes had already delivered
    WriteAttempt(String),
    Change(Vec<String>),
    Fault(String),
    ServerClose(String),
    Invoke { caller: usize, op: usize, desc: String },
    Return { caller: usize, op: usize, result: String },
    CallerDone(usize),
    Event(String),
    EndpointDropped,
    Director(String),
}

impl Ev {
    /// Order-only projection (no payloads, offsets or times) for interleaving signatures.
    pub fn kind_code(&self) -> String {
        match self {
            Ev::ClientWrite { .. } => "w".into(),
            Ev::ClientLine(l) => {
                let w = l.split(' ').next().unwrap_or("");
                format!("L:{}", if w.starts_with("command_list") { "list" } else { w })
            }
            Ev::WritePending => "wp".into(),
            Ev::ServerRecv(_) => "sr".into(),
            Ev::ServerWrite { kind, .. } => format!("S:{}", kind),
            Ev::ClientRead { completes, .. } => format!("r{}", completes.len()),
            Ev::ReadSpurious => "rs".into(),
            Ev::ReadEof => "eof".into(),
            Ev::ReadErr(_) => "re".into(),
            Ev::WriteErr(_) => "we".into(),
            Ev::WriteAttempt(_) => "wa".into(),
            Ev::Change(_) => "chg".into(),
            Ev::Fault(f) => format!("F:{}", f),
            Ev::ServerClose(_) => "sc".into(),
            Ev::Invoke { caller, .. } => format!("i{}", caller),
            Ev::Return { caller, .. } => format!("x{}", caller),
            Ev::CallerDone(_) => "cd".into(),
            Ev::Event(e) => format!("E:{}", e.split(':').next().unwrap_or("")),
            Ev::EndpointDropped => "drop".into(),
            Ev::Director(_) => "d".into(),
        }
    }
}

#[derive(Clone, Debug)]
pub struct LogEntry {
    pub seq: u64,
    pub ms: u64,
    pub ev: Ev,
    /// compact system state when the event happened (for distinct-state counting)
    pub state: u16,
}

#[derive(Clone, Debug)]
pub struct RespRecord {
    pub kind: RespKind,
    pub start: usize,
    pub end: usize,
    /// false when injected garbage landed inside this response
    pub intact: bool,
    pub written_seq: u64,
    pub written_ms: u64,
    pub fully_read_seq: Option<u64>,
}

#[derive(Clone, Debug, PartialEq, Eq, PartialOrd, Ord)]
enum Timed {
    DeliverC2s(usize),
    ReplyReady,
    SegmentDue,
    Change(usize),
    Fault(usize),
    WakeWriter,
    Greeting,
}

#[derive(PartialEq, Eq, PartialOrd, Ord)]
struct Queued {
    due: u64,
    seq: u64,
    what: Timed,
}

struct Segment {
    start: usize,
    end: usize,
    due: u64,
}

/// How the connection ended, as injected.
#[derive(Clone, Debug)]
pub struct EndInfo {
    pub kind: String,
    /// a clean close by the server on a response boundary with nothing outstanding
    pub clean: bool,
    pub seq: u64,
    pub ms: u64,
}

#[derive(Default, Clone, Debug)]
pub struct JudgeState {
    line_buf: Vec<u8>,
    line_open: bool,
    line_snap_read: usize,
    line_snap_units: usize,
    line_first_seq: u64,
    pub units_started: usize,
    in_list: bool,
    pub first_unit_checked: bool,
    pub violations: Vec<(String, String)>,
    pub lines: Vec<String>,
    pub noidle_written: u64,
    pub idle_written: u64,
    pub split_lines: u64,
    /// kind of the last obliging unit ("idle" / "req") and whether noidle followed it
    pub last_unit: &'static str,
    pub noidle_since: bool,
}

pub struct World {
    t0: Instant,
    pub log: Vec<LogEntry>,
    pub seq: u64,
    plan: Plan,
    // client -> server
    pub c2s: Vec<u8>,
    c2s_last_due: u64,
    pub write_calls: u64,
    write_pending_left: Option<u8>,
    write_cyc: usize,
    lat_cyc: usize,
    write_err: Option<String>,
    writer_waker: Option<Waker>,
    c2s_delivered: usize,
    // server -> client
    pub s2c: Vec<u8>,
    segments: VecDeque<Segment>,
    s2c_last_due: u64,
    seg_cyc: usize,
    delay_cyc: usize,
    pub s2c_read: usize,
    pub eof_at: Option<usize>,
    /// when the EOF becomes visible to the reader
    eof_due: u64,
    read_err: Option<(usize, String)>,
    s2c_dead: bool,
    read_pending_left: u8,
    read_cyc: usize,
    reader_waker: Option<Waker>,
    pub payload_ranges: Vec<(usize, usize)>,
    pub garbage_at: Option<usize>,
    pub responses: Vec<RespRecord>,
    pub greeting_end: usize,
    // server
    pub mpd: SimMpd,
    // faults
    fault_fired: Vec<bool>,
    pub faults_fired: Vec<String>,
    pub end: Option<EndInfo>,
    /// first time the client endpoint observed the end (EOF / error returned to it)
    pub client_observed_end: Option<u64>,
    pub observed_kind: Option<String>,
    pub endpoint_dropped: Option<u64>,
    pub writes_after_drop: u64,
    // judge
    pub judge: JudgeState,
    pub judge_enabled: bool,
    // queue
    queue: BinaryHeap<std::cmp::Reverse<Queued>>,
    pub notify: Arc<Notify>,
    pub shutdown: bool,
    // probes
    pub probes: std::collections::BTreeMap<&'static str, u64>,
    outstanding_ops: u32,
    /// time of the last transport activity (bytes moved, write refused, server wrote)
    pub last_io_ms: u64,
    /// number of non-greeting responses completely (and intact) read by the client endpoint
    fully_read_count: usize,
    /// index of the first response not yet completely read
    next_unread: usize,
}

pub type Shared = Arc<Mutex<World>>;

fn error_kind(name: &str) -> io::ErrorKind {
    match name {
        "ConnectionReset" => io::ErrorKind::ConnectionReset,
        "BrokenPipe" => io::ErrorKind::BrokenPipe,
        "TimedOut" => io::ErrorKind::TimedOut,
        "ConnectionAborted" => io::ErrorKind::ConnectionAborted,
        "PermissionDenied" => io::ErrorKind::PermissionDenied,
        "UnexpectedEof" => io::ErrorKind::UnexpectedEof,
        "InvalidData" => io::ErrorKind::InvalidData,
        _ => io::ErrorKind::Other,
    }
}

impl World {
    pub fn new(plan: &Plan) -> World {
        World {
            t0: Instant::now(),
            log: Vec::with_capacity(256),
            seq: 0,
            plan: plan.clone(),
            c2s: Vec::new(),
            c2s_last_due: 0,
            write_calls: 0,
            write_pending_left: None,
            write_cyc: 0,
            lat_cyc: 0,
            write_err: None,
            writer_waker: None,
            c2s_delivered: 0,
            s2c: Vec::new(),
            segments: VecDeque::new(),
            s2c_last_due: 0,
            seg_cyc: 0,
            delay_cyc: 0,
            s2c_read: 0,
            eof_at: None,
            eof_due: 0,
            read_err: None,
            s2c_dead: false,
            read_pending_left: plan.net.read_pending.first().copied().unwrap_or(0),
            read_cyc: 0,
            reader_waker: None,
            payload_ranges: Vec::new(),
            garbage_at: None,
            responses: Vec::new(),
            greeting_end: 0,
            mpd: SimMpd::new(plan),
            fault_fired: vec![false; plan.faults.len()],
            faults_fired: Vec::new(),
            end: None,
            client_observed_end: None,
            observed_kind: None,
            endpoint_dropped: None,
            writes_after_drop: 0,
            judge: JudgeState::default(),
            judge_enabled: true,
            queue: BinaryHeap::new(),
            notify: Arc::new(Notify::new()),
            shutdown: false,
            probes: Default::default(),
            outstanding_ops: 0,
            last_io_ms: 0,
            fully_read_count: 0,
            next_unread: 0,
        }
    }

    pub fn now_ms(&self) -> u64 {
        Instant::now().duration_since(self.t0).as_millis() as u64
    }

    pub fn log(&mut self, ev: Ev) -> u64 {
        if self.log.len() > 150_000 {
            // a run that produces this many transport events is spinning
            if std::env::var_os("VERIF_VERBOSE").is_some() {
                for e in &self.log[self.log.len() - 40..] {
                    eprintln!("  #{} t={} {:?}", e.seq, e.ms, e.ev);
                }
                eprintln!("  plan: {:?}", self.plan);
            }
            std::panic::panic_any(crate::wire::reader::BudgetExceeded(
                "more than 150000 simulation events in one run (spin)".into(),
            ));
        }
        self.seq += 1;
        let ms = self.now_ms();
        match &ev {
            Ev::Invoke { .. } => self.outstanding_ops += 1,
            Ev::Return { .. } => self.outstanding_ops = self.outstanding_ops.saturating_sub(1),
            Ev::ClientWrite { .. }
            | Ev::WritePending
            | Ev::ClientRead { .. }
            | Ev::ServerWrite { .. }
            | Ev::ServerRecv(_) => self.last_io_ms = ms,
            _ => {}
        }
        let state = self.state_code();
        self.log.push(LogEntry {
            seq: self.seq,
            ms,
            ev,
            state,
        });
        self.seq
    }

    fn state_code(&self) -> u16 {
        let mut s = 0u16;
        if self.mpd.idle_waiting {
            s |= 1;
        }
        if self.mpd.busy {
            s |= 2;
        }
        if self.judge.in_list {
            s |= 4;
        }
        if !self.segments.is_empty() {
            s |= 8;
        }
        let owed = self
            .judge
            .units_started
            .saturating_sub(self.responses_fully_read())
            .min(3) as u16;
        s |= owed << 4;
        if self.end.is_some() {
            s |= 64;
        }
        s |= (self.outstanding_ops.min(3) as u16) << 7;
        if self.c2s_delivered < self.c2s.len() {
            s |= 512;
        }
        s
    }

    pub fn probe(&mut self, name: &'static str) {
        *self.probes.entry(name).or_insert(0) += 1;
    }

    fn schedule(&mut self, due: u64, what: Timed) {
        self.seq += 1;
        self.queue.push(std::cmp::Reverse(Queued {
            due,
            seq: self.seq,
            what,
        }));
        self.notify.notify_one();
    }

    /// Called once at the start: greeting, change events, time-triggered faults.
    pub fn start(&mut self) {
        let (g, meta) = self.mpd.greeting();
        if self.plan.handshake_delay_ms > 0 {
            // a slow server: the greeting comes later
            self.greeting_end = g.len();
            self.schedule(self.plan.handshake_delay_ms as u64, Timed::Greeting);
        } else {
            self.write_s2c(g, meta);
            self.greeting_end = self.s2c.len();
        }
        let changes: Vec<u64> = self.plan.changes.iter().map(|c| c.at_ms).collect();
        for (i, at) in changes.into_iter().enumerate() {
            self.schedule(at, Timed::Change(i));
        }
        let faults = self.plan.faults.clone();
        for (i, f) in faults.iter().enumerate() {
            if let Trigger::AtTime(t) = f.trigger {
                self.schedule(t, Timed::Fault(i));
            }
        }
    }

    /// Inject a change event right now (used by the director's liveness probe).
    pub fn inject_change(&mut self, names: Vec<String>) {
        self.log(Ev::Change(names.clone()));
        let now = self.now_ms();
        let actions = self.mpd.change(&names, now);
        self.apply(actions);
    }

    pub fn next_due(&self) -> Option<u64> {
        self.queue.peek().map(|q| q.0.due)
    }

    /// Process every queued event that is due.
    pub fn process_due(&mut self) {
        loop {
            let now = self.now_ms();
            match self.queue.peek() {
                Some(q) if q.0.due <= now => {}
                _ => break,
            }
            let q = self.queue.pop().unwrap().0;
            match q.what {
                Timed::DeliverC2s(end) => {
                    if end > self.c2s_delivered {
                        let bytes = self.c2s[self.c2s_delivered..end].to_vec();
                        self.c2s_delivered = end;
                        if !self.mpd.closed {
                            self.log(Ev::ServerRecv(show_bytes(&bytes, 48)));
                            let was_idle = self.mpd.idle_waiting;
                            let ignored_before = self.mpd.noidle_ignored;
                            let actions = self.mpd.feed(&bytes, now);
                            if !was_idle && self.mpd.noidle_ignored > ignored_before {
                                self.probe("noidle_ignored_by_server");
                            }
                            self.apply(actions);
                        }
                    }
                }
                Timed::ReplyReady => {
                    let actions = self.mpd.reply_ready(now);
                    self.apply(actions);
                }
                Timed::SegmentDue => {
                    if let Some(w) = self.reader_waker.take() {
                        w.wake();
                    }
                }
                Timed::Change(i) => {
                    let names = self.plan.changes[i].names.clone();
                    self.log(Ev::Change(names.clone()));
                    if self.mpd.busy {
                        self.probe("change_while_request_in_flight");
                    }
                    let actions = self.mpd.change(&names, now);
                    self.apply(actions);
                }
                Timed::Fault(i) => self.fire_fault(i, None),
                Timed::Greeting => {
                    if self.s2c.is_empty() && !self.s2c_dead {
                        let (g, meta) = self.mpd.greeting();
                        self.write_s2c(g, meta);
                    }
                }
                Timed::WakeWriter => {
                    if let Some(w) = self.writer_waker.take() {
                        w.wake();
                    }
                }
            }
        }
    }

    fn apply(&mut self, actions: Vec<Action>) {
        for a in actions {
            match a {
                Action::Write(bytes, meta) => self.write_s2c(bytes, meta),
                Action::Defer(ms) => {
                    let due = self.now_ms() + ms as u64;
                    self.schedule(due, Timed::ReplyReady);
                }
                Action::Close(reason) => {
                    self.log(Ev::ServerClose(reason.clone()));
                    if self.eof_at.is_none() {
                        let at = self.s2c.len();
                        self.set_eof(at);
                    }
                    if self.end.is_none() {
                        let (seq, ms) = (self.seq, self.now_ms());
                        self.end = Some(EndInfo {
                            kind: format!("server_close:{}", reason),
                            clean: false,
                            seq,
                            ms,
                        });
                    }
                    self.wake_reader();
                }
            }
        }
    }

    /// The stream ends at `at`; the reader sees that `eof_delay_ms` from now (and not before the
    /// data already queued is due).
    fn set_eof(&mut self, at: usize) {
        if self.eof_at.is_none() {
            let due = self.now_ms().max(self.s2c_last_due) + self.plan.net.eof_delay_ms as u64;
            self.eof_due = due;
            if due > self.now_ms() {
                self.schedule(due, Timed::SegmentDue);
            }
        }
        self.eof_at = Some(at);
    }

    fn wake_reader(&mut self) {
        if let Some(w) = self.reader_waker.take() {
            w.wake();
        }
    }

    fn resp_kind_name(kind: &RespKind) -> String {
        match kind {
            RespKind::Greeting => "greeting".into(),
            RespKind::Idle { trigger, .. } if *trigger == crate::session::mpd::IdleTrigger::Denied => {
                "idle_ack".into()
            }
            RespKind::Idle { changes, .. } => format!("idle{}", changes.len()),
            RespKind::Unit(_) => "unit".into(),
            RespKind::Other => "other".into(),
        }
    }

    fn write_s2c(&mut self, mut bytes: Vec<u8>, meta: RespMeta) {
        if self.s2c_dead {
            return;
        }
        let now = self.now_ms();
        let start = self.s2c.len();
        let mut intact = true;
        // garbage spliced in right after this response is not part of it
        let mut trailing_garbage = 0usize;
        let mut payloads: Vec<(usize, usize)> =
            meta.payloads.iter().map(|(s, e)| (s + start, e + start)).collect();
        // offset-triggered faults that fall into this write
        let faults = self.plan.faults.clone();
        for (i, f) in faults.iter().enumerate() {
            if self.fault_fired[i] {
                continue;
            }
            let Trigger::AtS2cOffset(n) = f.trigger else {
                continue;
            };
            let end = start + bytes.len();
            match &f.kind {
                FaultKind::Garbage(g) => {
                    if n >= start && n <= end && !matches!(meta.kind, RespKind::Greeting) {
                        // never inside a length-delimited payload: move to the payload's end
                        let mut p = n;
                        for (s, e) in &payloads {
                            if p > *s && p < *e {
                                p = *e;
                            }
                            if p == *s {
                                p = *e;
                            }
                        }
                        let rel = p - start;
                        let tail = bytes.split_off(rel);
                        bytes.extend_from_slice(g);
                        bytes.extend_from_slice(&tail);
                        for pr in payloads.iter_mut() {
                            if pr.0 >= p {
                                pr.0 += g.len();
                                pr.1 += g.len();
                            }
                        }
                        if p < end {
                            intact = false;
                        } else {
                            trailing_garbage = g.len();
                        }
                        self.garbage_at = Some(p);
                        self.mark_fault(i, Some(format!("at s2c offset {}", p)));
                        self.end_connection("garbage", false);
                    }
                }
                FaultKind::Cut => {
                    if n >= start && n < end {
                        bytes.truncate(n - start);
                        intact = false;
                        self.set_eof(n);
                        self.s2c_dead = true;
                        self.mark_fault(i, Some(format!("at s2c offset {}", n)));
                        // a cut exactly on a response boundary is indistinguishable from a close
                        let on_boundary = n == start;
                        self.end_connection("cut", on_boundary);
                    }
                }
                FaultKind::ReadErr(kind) => {
                    if n >= start && n < end {
                        self.read_err = Some((n, kind.clone()));
                        intact = false;
                        self.mark_fault(i, Some(format!("at s2c offset {}", n)));
                        self.end_connection("read_err", false);
                    }
                }
                FaultKind::Reset => {
                    if n >= start && n < end {
                        self.read_err = Some((n, "ConnectionReset".into()));
                        self.write_err = Some("ConnectionReset".into());
                        intact = false;
                        self.mark_fault(i, Some(format!("at s2c offset {}", n)));
                        self.end_connection("reset", false);
                    }
                }
                _ => {}
            }
        }
        if let Some(n) = meta.close_after {
            if n < bytes.len() {
                bytes.truncate(n);
            }
            intact = n >= bytes.len() && meta.close_after.is_none();
        }
        self.s2c.extend_from_slice(&bytes);
        let end = self.s2c.len();
        self.payload_ranges.extend(payloads);
        let kind_name = Self::resp_kind_name(&meta.kind);
        let seq = self.log(Ev::ServerWrite {
            kind: kind_name,
            start,
            end,
        });
        if let RespKind::Idle { changes, trigger } = &meta.kind {
            if changes.len() > 1 {
                self.probe("multi_subsystem_reply");
            }
            if *trigger == crate::session::mpd::IdleTrigger::Immediate {
                self.probe("idle_answered_immediately");
            }
            if changes
                .iter()
                .any(|c| !crate::session::mpd::SUBSYSTEMS.contains(&c.as_str()))
            {
                self.probe("unknown_subsystem");
            }
        }
        self.responses.push(RespRecord {
            kind: meta.kind.clone(),
            start,
            end: end - trailing_garbage,
            intact,
            written_seq: seq,
            written_ms: now,
            fully_read_seq: None,
        });
        // segmentation + delivery times
        if end > start {
            let mut cuts: Vec<usize> = Vec::new();
            match &self.plan.net.s2c_mode {
                SegMode::Whole => {}
                SegMode::Sizes(sizes) => {
                    let mut p = start;
                    while p < end && !sizes.is_empty() {
                        let sz = sizes[self.seg_cyc % sizes.len()].max(1);
                        self.seg_cyc += 1;
                        p = p.saturating_add(sz);
                        if p < end {
                            cuts.push(p);
                        }
                    }
                }
                SegMode::Lines => {
                    for i in start..end - 1 {
                        if self.s2c[i] == b'\n' {
                            cuts.push(i + 1);
                        }
                    }
                }
                SegMode::BeforeLastLine => {
                    // position after the second-to-last LF
                    let mut lfs = (start..end).rev().filter(|i| self.s2c[*i] == b'\n');
                    let _last = lfs.next();
                    if let Some(prev) = lfs.next() {
                        cuts.push(prev + 1);
                    }
                }
            }
            if cuts.len() > 256 {
                // keep fine segmentation at both ends of a large reply, coarsen the middle
                let tail = cuts.split_off(cuts.len() - 96);
                cuts.truncate(128);
                cuts.extend(tail);
            }
            cuts.push(end);
            let mut s = start;
            let base = now + self.plan.net.s2c_latency_ms as u64;
            if cuts.len() > 1 {
                self.probe("reply_split_into_segments");
            }
            for c in cuts {
                let d = if self.plan.net.s2c_delay_ms.is_empty() {
                    0
                } else {
                    let d = self.plan.net.s2c_delay_ms[self.delay_cyc % self.plan.net.s2c_delay_ms.len()];
                    self.delay_cyc += 1;
                    d as u64
                };
                let due = self.s2c_last_due.max(base) + d;
                self.s2c_last_due = due;
                self.segments.push_back(Segment { start: s, end: c, due });
                if due <= now {
                    self.wake_reader();
                } else {
                    self.schedule(due, Timed::SegmentDue);
                }
                s = c;
            }
            if end - start > 4096 {
                self.probe("reply_crosses_4096");
            }
        }
        // response-count triggered faults
        if !matches!(meta.kind, RespKind::Greeting) {
            let count = self
                .responses
                .iter()
                .filter(|r| !matches!(r.kind, RespKind::Greeting))
                .count() as u32;
            for (i, f) in faults.iter().enumerate() {
                if self.fault_fired[i] {
                    continue;
                }
                if let Trigger::AfterResponse(n) = f.trigger {
                    if count == n + 1 {
                        self.fire_fault(i, None);
                    }
                }
            }
        }
        if self.eof_at.is_some() || self.read_err.is_some() {
            self.wake_reader();
        }
        if meta.close_after.is_some() {
            let at = self.s2c.len();
            self.set_eof(at);
            self.s2c_dead = true;
            self.end_connection("handshake_close", bytes.is_empty());
            self.wake_reader();
        }
    }

    fn mark_fault(&mut self, i: usize, note: Option<String>) {
        self.fault_fired[i] = true;
        let name = self.plan.faults[i].kind.name().to_string();
        self.faults_fired.push(name.clone());
        // in which client state did the fault land?
        let owed = self.judge.units_started > self.responses_fully_read();
        let state = if self.judge.units_started == 0 {
            "fault_in_state.handshake"
        } else if owed && self.judge.last_unit == "idle" && !self.judge.noidle_since {
            "fault_in_state.idle"
        } else if owed && self.judge.last_unit == "idle" {
            "fault_in_state.noidle_wait"
        } else if owed {
            "fault_in_state.in_flight"
        } else {
            "fault_in_state.window"
        };
        self.probe(state);
        self.log(Ev::Fault(match note {
            Some(n) => format!("{} {}", name, n),
            None => name,
        }));
    }

    fn end_connection(&mut self, kind: &str, clean: bool) {
        if self.end.is_none() {
            let (seq, ms) = (self.seq, self.now_ms());
            self.end = Some(EndInfo {
                kind: kind.to_string(),
                clean,
                seq,
                ms,
            });
        }
    }

    fn fire_fault(&mut self, i: usize, note: Option<String>) {
        if self.fault_fired[i] || self.end.is_some() && !matches!(self.plan.faults[i].kind, FaultKind::WriteErr(_)) {
            return;
        }
        let f: Fault = self.plan.faults[i].clone();
        self.mark_fault(i, note);
        match &f.kind {
            FaultKind::CloseClean => {
                // clean = nothing of a response is outstanding from the client's point of view
                let at = self.s2c.len();
                self.set_eof(at);
                self.s2c_dead = true;
                self.mpd.closed = true;
                self.end_connection("close_clean", true);
            }
            FaultKind::Cut => {
                // time-triggered cut: the stream ends where the client has read to (in-flight
                // bytes are lost)
                let at = self.s2c_read;
                let boundary = self.responses.iter().any(|r| r.end == at) && at == self.s2c.len();
                self.truncate_s2c(at);
                self.set_eof(at);
                self.s2c_dead = true;
                self.mpd.closed = true;
                self.end_connection("cut", boundary);
            }
            FaultKind::ReadErr(kind) => {
                let at = self.s2c_read;
                self.read_err = Some((at, kind.clone()));
                self.s2c_dead = true;
                self.mpd.closed = true;
                self.end_connection("read_err", false);
            }
            FaultKind::WriteErr(kind) => {
                self.write_err = Some(kind.clone());
                self.end_connection("write_err", false);
                if let Some(w) = self.writer_waker.take() {
                    w.wake();
                }
            }
            FaultKind::Reset => {
                let at = self.s2c_read;
                self.read_err = Some((at, "ConnectionReset".into()));
                self.write_err = Some("ConnectionReset".into());
                self.s2c_dead = true;
                self.mpd.closed = true;
                self.end_connection("reset", false);
                if let Some(w) = self.writer_waker.take() {
                    w.wake();
                }
            }
            FaultKind::IdleDenied(code) => {
                let now = self.now_ms();
                self.end_connection("idle_denied", false);
                let actions = self.mpd.deny_idle(*code, now);
                self.apply(actions);
            }
            FaultKind::Garbage(g) => {
                // time-triggered garbage: appended after what has been written so far
                if !self.s2c_dead {
                    let p = self.s2c.len();
                    self.garbage_at = Some(p);
                    self.s2c.extend_from_slice(g);
                    let due = self.s2c_last_due.max(self.now_ms());
                    self.s2c_last_due = due;
                    self.segments.push_back(Segment {
                        start: p,
                        end: p + g.len(),
                        due,
                    });
                    self.schedule(due, Timed::SegmentDue);
                    self.end_connection("garbage", false);
                }
            }
        }
        self.wake_reader();
    }

    fn truncate_s2c(&mut self, at: usize) {
        self.s2c.truncate(at);
        while let Some(s) = self.segments.back() {
            if s.start >= at {
                self.segments.pop_back();
            } else {
                break;
            }
        }
        if let Some(s) = self.segments.back_mut() {
            if s.end > at {
                s.end = at;
            }
        }
        for r in self.responses.iter_mut() {
            if r.end > at {
                r.intact = false;
            }
        }
    }

    // ---- judge (client side of C05) ---------------------------------------------------------

    fn responses_fully_read(&self) -> usize {
        self.fully_read_count
    }

    fn judge_bytes(&mut self, bytes: &[u8], first_seq: u64) {
        if !self.judge_enabled {
            return;
        }
        for &b in bytes {
            if self.judge.line_buf.is_empty() && !self.judge.line_open {
                self.judge.line_open = true;
                self.judge.line_snap_read = self.responses_fully_read();
                self.judge.line_snap_units = self.judge.units_started;
                self.judge.line_first_seq = first_seq;
            }
            if b != b'\n' {
                self.judge.line_buf.push(b);
                continue;
            }
            let line = std::mem::take(&mut self.judge.line_buf);
            self.judge.line_open = false;
            let text = String::from_utf8_lossy(&line).to_string();
            self.log(Ev::ClientLine(crate::canon::clip(&text, 40)));
            self.judge.lines.push(text.clone());
            if self.judge.line_first_seq != first_seq {
                self.judge.split_lines += 1;
                self.probe("short_write_split_line");
            }
            if self.judge.lines.len() == 1 && self.s2c_read < self.greeting_end {
                self.judge.violations.push((
                    "J1_wrote_before_greeting_was_read".into(),
                    format!("first line {:?} written before the greeting was read", text),
                ));
            }
            if self.judge.in_list {
                if text == "command_list_end" {
                    self.judge.in_list = false;
                }
                continue;
            }
            let word = text.split(' ').next().unwrap_or("").to_string();
            if word == "noidle" {
                self.judge.noidle_written += 1;
                self.judge.noidle_since = true;
                continue;
            }
            // an obliging unit starts here: every earlier answer must have been consumed
            if self.judge.line_snap_read != self.judge.line_snap_units {
                self.judge.violations.push((
                    "J3_wrote_before_previous_answer_was_consumed".into(),
                    format!(
                        "client started writing {:?} when only {} of the {} answers owed by the server had been completely read",
                        text, self.judge.line_snap_read, self.judge.line_snap_units
                    ),
                ));
            }
            // the first unit after the handshake must be idle
            let handshake_units = if self.plan.password.is_some() { 1 } else { 0 };
            if self.judge.units_started == handshake_units && !self.judge.first_unit_checked {
                self.judge.first_unit_checked = true;
                if word != "idle" {
                    self.judge.violations.push((
                        "J1_first_command_is_not_idle".into(),
                        format!("first command after the handshake is {:?}", text),
                    ));
                }
            }
            if word == "idle" {
                self.judge.idle_written += 1;
                self.judge.last_unit = "idle";
            } else {
                self.judge.last_unit = "req";
            }
            self.judge.noidle_since = false;
            self.judge.units_started += 1;
            if word == "command_list_ok_begin" || word == "command_list_begin" {
                self.judge.in_list = true;
            }
        }
    }
}

/// The client's end of the connection. This is what `Client::connect*` receives.
pub struct ClientEndpoint {
    pub world: Shared,
}

impl Drop for ClientEndpoint {
    fn drop(&mut self) {
        if let Ok(mut w) = self.world.lock() {
            let seq = w.log(Ev::EndpointDropped);
            w.endpoint_dropped = Some(seq);
        }
    }
}

impl AsyncRead for ClientEndpoint {
    fn poll_read(
        self: Pin<&mut Self>,
        cx: &mut Context<'_>,
        buf: &mut ReadBuf<'_>,
    ) -> Poll<io::Result<()>> {
        let mut w = self.world.lock().unwrap_or_else(|e| e.into_inner());
        let now = w.now_ms();
        if let Some((at, kind)) = w.read_err.clone() {
            if w.s2c_read >= at {
                let seq = w.log(Ev::ReadErr(kind.clone()));
                if w.client_observed_end.is_none() {
                    w.client_observed_end = Some(seq);
                    w.observed_kind = Some("read_err".into());
                }
                return Poll::Ready(Err(io::Error::new(error_kind(&kind), "simulated read error")));
            }
        }
        let limit = w.read_err.as_ref().map(|(at, _)| *at).unwrap_or(usize::MAX);
        let head_ready = matches!(w.segments.front(), Some(s) if s.due <= now);
        if head_ready {
            if w.read_pending_left > 0 {
                w.read_pending_left -= 1;
                w.log(Ev::ReadSpurious);
                cx.waker().wake_by_ref();
                return Poll::Pending;
            }
            let pat = w.plan.net.read_pending.clone();
            if !pat.is_empty() {
                w.read_cyc += 1;
                w.read_pending_left = pat[w.read_cyc % pat.len()];
            }
            let (s, e) = {
                let seg = w.segments.front().unwrap();
                (seg.start, seg.end)
            };
            let n = (e - s).min(buf.remaining()).min(limit.saturating_sub(s));
            if buf.remaining() == 0 {
                return Poll::Ready(Ok(()));
            }
            if n == 0 {
                // the read-error offset is reached exactly at the head of this segment
                w.segments.clear();
                drop(w);
                cx.waker().wake_by_ref();
                return Poll::Pending;
            }
            buf.put_slice(&w.s2c[s..s + n]);
            if s + n == e {
                w.segments.pop_front();
            } else {
                w.segments.front_mut().unwrap().start = s + n;
            }
            w.s2c_read = s + n;
            let seq_next = w.seq + 1;
            let mut completes = Vec::new();
            let read_to = w.s2c_read;
            // responses are ordered by offset: advance over those that are now completely read
            while w.next_unread < w.responses.len() && w.responses[w.next_unread].end <= read_to {
                let i = w.next_unread;
                w.next_unread += 1;
                if w.responses[i].fully_read_seq.is_none() {
                    w.responses[i].fully_read_seq = Some(seq_next);
                    if w.responses[i].end > w.responses[i].start {
                        completes.push(World::resp_kind_name(&w.responses[i].kind));
                    }
                    if w.responses[i].intact && !matches!(w.responses[i].kind, RespKind::Greeting) {
                        w.fully_read_count += 1;
                    }
                }
            }
            w.log(Ev::ClientRead {
                start: s,
                end: s + n,
                completes,
            });
            return Poll::Ready(Ok(()));
        }
        if w.segments.is_empty() {
            if let Some(eof) = w.eof_at {
                if w.s2c_read >= eof && now >= w.eof_due {
                    let seq = w.log(Ev::ReadEof);
                    if w.client_observed_end.is_none() {
                        w.client_observed_end = Some(seq);
                        w.observed_kind = Some("eof".into());
                    }
                    return Poll::Ready(Ok(()));
                }
            }
        }
        w.reader_waker = Some(cx.waker().clone());
        Poll::Pending
    }
}

impl AsyncWrite for ClientEndpoint {
    fn poll_write(
        self: Pin<&mut Self>,
        cx: &mut Context<'_>,
        buf: &[u8],
    ) -> Poll<io::Result<usize>> {
        let mut w = self.world.lock().unwrap_or_else(|e| e.into_inner());
        let now = w.now_ms();
        // write-index triggered faults
        if w.write_pending_left.is_none() {
            let k = w.write_calls;
            let faults = w.plan.faults.clone();
            for (i, f) in faults.iter().enumerate() {
                if let Trigger::AtWrite(n) = f.trigger {
                    if n == k && !w.fault_fired[i] {
                        w.fire_fault(i, Some(format!("at client write #{}", k)));
                    }
                }
            }
        }
        if let Some(kind) = w.write_err.clone() {
            w.write_calls += 1;
            w.write_pending_left = None;
            if w.judge_enabled && !buf.is_empty() {
                let mut line = w.judge.line_buf.clone();
                let upto = buf.iter().position(|b| *b == b'\n').unwrap_or(buf.len());
                line.extend_from_slice(&buf[..upto]);
                let text = String::from_utf8_lossy(&line).to_string();
                w.log(Ev::WriteAttempt(crate::canon::clip(&text, 40)));
            }
            let seq = w.log(Ev::WriteErr(kind.clone()));
            if w.client_observed_end.is_none() {
                w.client_observed_end = Some(seq);
                w.observed_kind = Some("write_err".into());
            }
            return Poll::Ready(Err(io::Error::new(
                error_kind(&kind),
                "simulated write error",
            )));
        }
        if buf.is_empty() {
            return Poll::Ready(Ok(0));
        }
        // back-pressure: a write may first be refused a few times
        match w.write_pending_left {
            None => {
                let pat = &w.plan.net.write_pending;
                let p = if pat.is_empty() {
                    0
                } else {
                    pat[(w.write_calls as usize) % pat.len()]
                };
                if p > 0 {
                    w.write_pending_left = Some(p - 1);
                    w.log(Ev::WritePending);
                    w.writer_waker = Some(cx.waker().clone());
                    let due = now + w.plan.net.write_pending_ms as u64;
                    w.schedule(due, Timed::WakeWriter);
                    return Poll::Pending;
                }
            }
            Some(0) => {}
            Some(n) => {
                w.write_pending_left = Some(n - 1);
                w.log(Ev::WritePending);
                w.writer_waker = Some(cx.waker().clone());
                let due = now + w.plan.net.write_pending_ms as u64;
                w.schedule(due, Timed::WakeWriter);
                return Poll::Pending;
            }
        }
        w.write_pending_left = None;
        w.write_calls += 1;
        let chunks = &w.plan.net.write_chunk;
        let max = if chunks.is_empty() {
            usize::MAX
        } else {
            chunks[w.write_cyc % chunks.len()].max(1)
        };
        w.write_cyc += 1;
        let n = buf.len().min(max);
        if n < buf.len() {
            w.probe("short_write");
        }
        let start = w.c2s.len();
        w.c2s.extend_from_slice(&buf[..n]);
        let seq = w.log(Ev::ClientWrite {
            start,
            end: start + n,
            text: show_bytes(&buf[..n], 48),
        });
        if w.end.is_some() && w.s2c_dead {
            w.writes_after_drop += 1;
        }
        w.judge_bytes(&buf[..n], seq);
        let lats = &w.plan.net.c2s_latency_ms;
        let lat = if lats.is_empty() {
            0
        } else {
            lats[w.lat_cyc % lats.len()]
        } as u64;
        w.lat_cyc += 1;
        let due = w.c2s_last_due.max(now + lat);
        w.c2s_last_due = due;
        let end = start + n;
        w.schedule(due, Timed::DeliverC2s(end));
        Poll::Ready(Ok(n))
    }

    // The library as it stands writes with `write_all`; a change that gathers its buffers
    // (`write_vectored`, `write_all_buf` on a chain) meets a transport that either supports
    // that natively — the slices are one contiguous offer and a short count can end anywhere —
    // or falls back to the first non-empty slice (tokio's default).
    fn poll_write_vectored(
        self: Pin<&mut Self>,
        cx: &mut Context<'_>,
        bufs: &[io::IoSlice<'_>],
    ) -> Poll<io::Result<usize>> {
        let native = {
            let w = self.world.lock().unwrap_or_else(|e| e.into_inner());
            w.plan.net.vectored
        };
        if native {
            let mut all = Vec::new();
            for b in bufs {
                all.extend_from_slice(b);
            }
            self.poll_write(cx, &all)
        } else {
            let first = bufs.iter().find(|b| !b.is_empty()).map(|b| &**b).unwrap_or(&[]);
            self.poll_write(cx, first)
        }
    }

    fn is_write_vectored(&self) -> bool {
        let w = self.world.lock().unwrap_or_else(|e| e.into_inner());
        w.plan.net.vectored
    }

    // The library as it stands neither flushes nor shuts the transport down. A change that
    // does meets what a broken socket or a TLS layer gives it: once the write side has failed,
    // flushing and shutting down fail too (with the same kind).
    fn poll_flush(self: Pin<&mut Self>, _cx: &mut Context<'_>) -> Poll<io::Result<()>> {
        let mut w = self.world.lock().unwrap_or_else(|e| e.into_inner());
        w.write_side_op("flush")
    }

    fn poll_shutdown(self: Pin<&mut Self>, _cx: &mut Context<'_>) -> Poll<io::Result<()>> {
        let mut w = self.world.lock().unwrap_or_else(|e| e.into_inner());
        w.write_side_op("shutdown")
    }
}

impl World {
    fn write_side_op(&mut self, what: &str) -> Poll<io::Result<()>> {
        match self.write_err.clone() {
            Some(kind) => {
                self.log(Ev::Director(format!("{} on the failed write side", what)));
                let seq = self.log(Ev::WriteErr(kind.clone()));
                if self.client_observed_end.is_none() {
                    self.client_observed_end = Some(seq);
                    self.observed_kind = Some("write_err".into());
                }
                Poll::Ready(Err(io::Error::new(
                    error_kind(&kind),
                    "simulated write-side error",
                )))
            }
            None => Poll::Ready(Ok(())),
        }
    }
}

/// The pump task: sleeps on the paused clock until the next queued event is due.
pub async fn pump(world: Shared) {
    loop {
        let (next, notify, t0, shutdown) = {
            let w = world.lock().unwrap_or_else(|e| e.into_inner());
            (w.next_due(), w.notify.clone(), w.t0, w.shutdown)
        };
        if shutdown {
            break;
        }
        match next {
            None => notify.notified().await,
            Some(due) => {
                let deadline = t0 + std::time::Duration::from_millis(due);
                tokio::select! {
                    biased;
                    _ = tokio::time::sleep_until(deadline) => {
                        world.lock().unwrap_or_else(|e| e.into_inner()).process_due();
                    }
                    _ = notify.notified() => {}
                }
            }
        }
    }
}

pub fn digest_log(log: &[LogEntry]) -> u64 {
    let mut h = Fnv::new();
    for e in log {
        h.write_u64(e.seq);
        h.write_u64(e.ms);
        h.write_str(&format!("{:?}", e.ev));
    }
    h.finish()
}

pub fn signature_log(log: &[LogEntry]) -> u64 {
    let mut h = Fnv::new();
    for e in log {
        if matches!(e.ev, Ev::Director(_) | Ev::ReadSpurious | Ev::ServerRecv(_)) {
            continue;
        }
        h.write_str(&e.ev.kind_code());
    }
    h.finish()
}
