//! Seeded generation of session plans (swarm style: every plan enables a random subset of
//! behaviours), two-pass targeting of change events and faults, and plan shrinking.

use crate::prng::Rng;
use crate::session::mpd::SUBSYSTEMS;
use crate::session::plan::*;
use crate::session::run::{execute, RunOutput};

pub struct Workload {
    pub max_callers: usize,
    pub max_ops: usize,
    pub lists: bool,
    pub bursts: bool,
    pub cancels: bool,
    pub typed: bool,
    pub fails: bool,
    pub drops: bool,
    pub big_replies: bool,
}

impl Workload {
    pub fn full() -> Workload {
        Workload {
            max_callers: 4,
            max_ops: 8,
            lists: true,
            bursts: true,
            cancels: true,
            typed: true,
            fails: true,
            drops: false,
            big_replies: true,
        }
    }
}

pub struct Ids(pub u64);

impl Ids {
    pub fn next(&mut self) -> u64 {
        self.0 += 1;
        self.0
    }
}

const THINKS: &[u64] = &[0, 0, 1, 2, 5, 50, 99, 100, 101, 150, 500];

pub fn gen_shape(rng: &mut Rng, size_class: u32, fails: bool, slow: bool) -> ReplyShape {
    let (fields, value_len) = match size_class {
        0 => (rng.below(3) as u32, rng.below(8) as u32),
        1 => (rng.below(8) as u32, rng.below(60) as u32),
        2 => (rng.range(1, 12) as u32, *rng.pick(&[300u32, 400, 1000, 2000])),
        _ => (rng.range(4, 16) as u32, *rng.pick(&[1000u32, 2500, 4000])),
    };
    let binary = if rng.chance(1, 5) {
        Some(match size_class {
            0 => rng.below(8) as u32,
            1 => rng.below(200) as u32,
            2 => *rng.pick(&[1000u32, 4096, 5000]),
            _ => *rng.pick(&[8192u32, 10000, 20000]),
        })
    } else {
        None
    };
    let fail = if fails && rng.chance(1, 6) {
        Some(*rng.pick(&[2u64, 5, 50, 52, 56]))
    } else {
        None
    };
    let delay_ms = if slow && rng.chance(1, 8) {
        *rng.pick(&[99u32, 100, 101, 150])
    } else {
        rng.below(6) as u32
    };
    let partial_fields = if fail.is_some() {
        *rng.pick(&[0u32, 0, 1, 2])
    } else {
        0
    };
    ReplyShape {
        fields,
        value_len,
        binary,
        fail,
        delay_ms,
        partial_fields,
        distinct_keys: false,
    }
}

fn gen_leaf(rng: &mut Rng, plan: &mut Plan, ids: &mut Ids, w: &Workload, size_class: u32, slow: bool) -> Op {
    let kinds: Vec<u32> = {
        let mut k = vec![0, 0, 0];
        if w.typed {
            k.push(1);
        }
        if w.lists {
            k.push(2);
            k.push(2);
            if w.typed {
                k.push(3);
            }
        }
        k
    };
    match *rng.pick(&kinds) {
        0 | 1 => {
            let id = ids.next();
            plan.replies.insert(id, gen_shape(rng, size_class, w.fails, slow));
            if rng.chance(1, 2) && w.typed {
                Op::Typed { id }
            } else {
                Op::Request { id }
            }
        }
        k => {
            let n = match rng.below(4) {
                0 => 1,
                1 | 2 => rng.urange(2, 3),
                _ => rng.urange(2, 6),
            };
            let list: Vec<u64> = (0..n).map(|_| ids.next()).collect();
            // failing index: none / first / middle / last
            let fail_at = if w.fails {
                match rng.below(5) {
                    0 => Some(0),
                    1 => Some(n / 2),
                    2 => Some(n - 1),
                    _ => None,
                }
            } else {
                None
            };
            for (i, id) in list.iter().enumerate() {
                let mut s = gen_shape(rng, size_class.min(2), false, slow);
                if Some(i) == fail_at {
                    s.fail = Some(*rng.pick(&[2u64, 5, 50, 56]));
                    s.partial_fields = *rng.pick(&[0u32, 0, 1, 3]);
                }
                plan.replies.insert(*id, s);
            }
            if k == 3 {
                Op::TypedList { ids: list }
            } else {
                Op::List { ids: list }
            }
        }
    }
}

pub fn gen_workload(rng: &mut Rng, plan: &mut Plan, ids: &mut Ids, w: &Workload) {
    let ncallers = *rng.pick_weighted(&[(3, 1usize), (3, 2), (2, 3), (1, 4)]);
    let ncallers = ncallers.min(w.max_callers).max(1);
    let size_class = if w.big_replies {
        *rng.pick_weighted(&[(5, 0u32), (3, 1), (1, 2), (1, 3)])
    } else {
        *rng.pick_weighted(&[(5, 0u32), (3, 1)])
    };
    let slow = rng.chance(1, 3);
    let zero_think = rng.chance(1, 4);
    let use_bursts = w.bursts && rng.chance(1, 2);
    let use_cancels = w.cancels && rng.chance(1, 2);
    let use_yields = rng.chance(1, 3);
    // a small share of plans is one long history on the connection: hundreds of requests
    let long_history = w.max_ops >= 8 && rng.chance(1, 100);
    for ci in 0..ncallers {
        let nops = if long_history && ci == 0 {
            *rng.pick(&[200usize, 255, 256, 257, 300, 520])
        } else {
            rng.urange(1, w.max_ops)
        };
        let size_class = if long_history && ci == 0 { 0 } else { size_class };
        let first_new_id = ids.0 + 1;
        let zero_think = zero_think || (long_history && ci == 0);
        let mut script = Vec::new();
        if rng.chance(1, 2) {
            script.push(Op::Think {
                ms: *rng.pick(THINKS),
            });
        }
        for _ in 0..nops {
            let r = rng.below(12);
            if r < 1 && use_bursts {
                let k = rng.urange(2, 4);
                let ops = (0..k)
                    .map(|_| gen_leaf(rng, plan, ids, w, size_class, slow))
                    .collect();
                script.push(Op::Burst { ops });
            } else if r < 3 && use_cancels {
                let inner = gen_leaf(rng, plan, ids, w, size_class, slow);
                script.push(Op::Cancel {
                    op: Box::new(inner),
                    after_ms: *rng.pick(&[0u64, 0, 1, 2, 3, 5, 100, 150]),
                });
            } else if r < 4 && use_yields {
                script.push(Op::Yield {
                    n: rng.range(1, 3) as u32,
                });
            } else {
                script.push(gen_leaf(rng, plan, ids, w, size_class, slow));
            }
            if !zero_think && rng.chance(2, 3) {
                script.push(Op::Think {
                    ms: *rng.pick(THINKS),
                });
            }
        }
        if w.drops && rng.chance(1, 3) {
            script.push(Op::DropHandle);
        }
        if long_history && ci == 0 {
            // a growing vocabulary of field names over the life of the connection
            for id in first_new_id..=ids.0 {
                if let Some(s) = plan.replies.get_mut(&id) {
                    s.distinct_keys = true;
                    s.fields = s.fields.max(3);
                }
            }
        }
        plan.callers.push(script);
    }
    // rarely: far more requests outstanding at once than any queue bound someone might introduce
    if w.bursts && w.max_ops >= 8 && rng.chance(1, 150) {
        let k = *rng.pick(&[129usize, 130, 200, 300]);
        let ops: Vec<Op> = (0..k)
            .map(|_| {
                let id = ids.next();
                plan.replies.insert(id, ReplyShape::default());
                Op::Request { id }
            })
            .collect();
        if let Some(c) = plan.callers.first_mut() {
            let at = rng.usize_below(c.len() + 1);
            c.insert(at, Op::Burst { ops });
        }
    }
    // rarely: a reply that takes minutes of (virtual) time, followed by more requests
    if rng.chance(1, 100) {
        let keys: Vec<u64> = plan.replies.keys().copied().collect();
        if !keys.is_empty() {
            let id = *rng.pick(&keys);
            if let Some(s) = plan.replies.get_mut(&id) {
                s.delay_ms = *rng.pick(&[59_999u32, 120_000, 299_999, 300_001, 900_000]);
            }
        }
    }
    // rarely one reply carries a payload far beyond the receive buffer and its first doublings
    if w.big_replies && rng.chance(1, 150) {
        let keys: Vec<u64> = plan.replies.keys().copied().collect();
        if !keys.is_empty() {
            let id = *rng.pick(&keys);
            if let Some(s) = plan.replies.get_mut(&id) {
                if s.fail.is_none() {
                    s.binary = Some(*rng.pick(&[65536u32, 131073, 400_000]));
                }
            }
        }
    }
}

pub fn gen_net(rng: &mut Rng) -> NetPolicy {
    let mut n = NetPolicy::default();
    n.s2c_mode = match rng.below(8) {
        0 | 1 => SegMode::Whole,
        2 => SegMode::Lines,
        3 => SegMode::BeforeLastLine,
        4 => SegMode::Sizes(vec![1]),
        5 => SegMode::Sizes(vec![*rng.pick(&[2usize, 3, 5, 7, 16])]),
        6 => SegMode::Sizes(
            (0..rng.urange(1, 4))
                .map(|_| *rng.pick(&[1usize, 2, 4, 9, 17, 100, 1000, 4096, 5000]))
                .collect(),
        ),
        _ => SegMode::Sizes(vec![4096]),
    };
    n.s2c_delay_ms = match rng.below(5) {
        0 | 1 => vec![0],
        2 => vec![1],
        3 => vec![0, 1, 3],
        _ => (0..rng.urange(1, 4)).map(|_| rng.below(4) as u32).collect(),
    };
    n.s2c_latency_ms = *rng.pick(&[0u32, 0, 1, 2, 5]);
    n.read_pending = match rng.below(4) {
        0 | 1 => vec![0],
        2 => vec![1],
        _ => (0..rng.urange(1, 4)).map(|_| rng.below(3) as u8).collect(),
    };
    n.c2s_latency_ms = match rng.below(4) {
        0 | 1 => vec![0],
        2 => vec![1],
        _ => (0..rng.urange(1, 3)).map(|_| rng.below(6) as u32).collect(),
    };
    n.write_chunk = match rng.below(6) {
        0..=2 => vec![usize::MAX],
        3 => vec![1],
        4 => vec![3, 7],
        _ => (0..rng.urange(1, 3))
            .map(|_| *rng.pick(&[1usize, 2, 4, 5, 6, 11, 64]))
            .collect(),
    };
    n.write_pending = match rng.below(5) {
        0..=2 => vec![0],
        3 => vec![1, 0],
        _ => vec![0, 2, 0, 0],
    };
    // mostly short refusals; sometimes back-pressure that outlasts the client's re-idle delay
    n.write_pending_ms = *rng.pick(&[1u32, 1, 2, 3, 3, 2, 60, 120, 250]);
    n.eof_delay_ms = *rng.pick(&[0u32, 0, 0, 1, 2, 5, 150]);
    n.vectored = rng.chance(1, 3);
    n
}

const UNKNOWN_NAMES: &[&str] = &[
    "Player",
    "PLAYLIST",
    "stored-playlist",
    "neighbour",
    "x",
    "new_subsystem",
    "queue",
    "database ",
    "update_",
];

pub fn gen_names(rng: &mut Rng, unknown: bool, max: usize) -> Vec<String> {
    let n = rng.urange(1, max.max(1));
    let mut v: Vec<String> = Vec::new();
    for _ in 0..n {
        let name = if unknown && rng.chance(1, 4) {
            if rng.chance(1, 2) {
                (*rng.pick(UNKNOWN_NAMES)).trim_end().to_string()
            } else {
                let len = rng.urange(1, 12);
                (0..len)
                    .map(|_| *rng.pick(b"abcdefghijklmnopqrstuvwxyz_") as char)
                    .collect()
            }
        } else {
            (*rng.pick(SUBSYSTEMS)).to_string()
        };
        if !v.contains(&name) {
            v.push(name);
        }
    }
    v
}

/// Rough duration of the scripted activity (ms), for placing events.
pub fn rough_span(plan: &Plan) -> u64 {
    let mut max = 0u64;
    for c in &plan.callers {
        let mut t = 0u64;
        for op in c {
            t += match op {
                Op::Think { ms } => *ms,
                Op::Cancel { after_ms, .. } => (*after_ms).min(20) + 2,
                _ => 6,
            };
        }
        max = max.max(t);
    }
    max + 120
}

pub fn gen_changes(rng: &mut Rng, plan: &mut Plan, max_events: usize, unknown: bool, max_names: usize) {
    let n = rng.urange(0, max_events);
    let span = rough_span(plan);
    for _ in 0..n {
        let at_ms = if rng.chance(1, 3) {
            // around the start of a caller's operation (approximate; see `retarget`)
            let c = rng.pick(&plan.callers).clone();
            let mut t = 0u64;
            let stop = rng.usize_below(c.len().max(1));
            for op in c.iter().take(stop) {
                t += match op {
                    Op::Think { ms } => *ms,
                    _ => 3,
                };
            }
            t + rng.below(3)
        } else {
            rng.below(span + 1)
        };
        plan.changes.push(ChangeEvent {
            at_ms,
            names: gen_names(rng, unknown, max_names),
        });
    }
    plan.changes.sort_by_key(|c| c.at_ms);
}

/// Interesting instants of a (change-free / fault-free) execution: enqueues, replies written and
/// completely read, re-idles.
pub fn instants(out: &RunOutput) -> Vec<u64> {
    use crate::session::net::Ev;
    let mut v = Vec::new();
    for e in &out.log {
        match &e.ev {
            Ev::Invoke { .. } | Ev::ServerWrite { .. } => v.push(e.ms),
            Ev::ClientRead { .. } => v.push(e.ms),
            Ev::ClientLine(l) if l == "idle" || l == "noidle" => v.push(e.ms),
            _ => {}
        }
        if e.ms > 3_000_000 {
            break;
        }
    }
    // nothing from the epilogue
    let q = out
        .log
        .iter()
        .find(|e| e.seq == out.quiescence_seq)
        .map(|e| e.ms)
        .unwrap_or(u64::MAX);
    v.retain(|t| *t < q);
    v.sort_unstable();
    v.dedup();
    v
}

/// Second pass: move the change events next to instants at which the client actually does
/// something (±1 ms), so that races are hit on purpose rather than by luck.
pub fn retarget_changes(rng: &mut Rng, plan: &mut Plan) {
    if plan.changes.is_empty() {
        return;
    }
    let mut probe = plan.clone();
    probe.changes.clear();
    probe.probe_request = false;
    let out = execute(&probe);
    let inst = instants(&out);
    if inst.is_empty() {
        return;
    }
    for c in plan.changes.iter_mut() {
        let t = *rng.pick(&inst);
        let d = *rng.pick(&[-1i64, 0, 0, 0, 1]);
        c.at_ms = (t as i64 + d).max(0) as u64;
    }
    plan.changes.sort_by_key(|c| c.at_ms);
}

/// A slow link or a slow server: every byte takes seconds (one direction or both). Virtual time
/// is free; a client with a deadline of its own on some exchange ("the reply to `noidle` never
/// takes more than a second") is met where that deadline is wrong.
pub fn slow_link(rng: &mut Rng, plan: &mut Plan) {
    // small plans only: hundreds of round trips of ten seconds each would outlast the harness's
    // own limits (one hour of virtual time per wait) without exercising anything new
    let ops: usize = plan.callers.iter().flatten().map(|o| o.ids().len().max(1)).sum();
    let slow_replies = plan.replies.values().any(|s| s.delay_ms > 1000);
    if ops > 12 || plan.changes.len() > 12 || slow_replies {
        return;
    }
    // (the round trip stays well below the 60 s of silence that define quiescence)
    plan.net.s2c_latency_ms = *rng.pick(&[1_100u32, 2_500, 5_500, 10_500]);
    plan.net.c2s_latency_ms = vec![*rng.pick(&[0u32, 0, 600, 1_100, 5_000])];
    plan.net.s2c_delay_ms = vec![0];
}

/// One reply of the plan becomes a big listing: hundreds to thousands of short lines in one
/// response (what `playlistinfo` or `listall` return), delivered in coarse segments so that
/// many complete lines are buffered at once.
pub fn add_big_listing(rng: &mut Rng, plan: &mut Plan) -> bool {
    let ids: Vec<u64> = plan
        .replies
        .iter()
        .filter(|(_, s)| s.fail.is_none())
        .map(|(id, _)| *id)
        .collect();
    if ids.is_empty() {
        return false;
    }
    let id = *rng.pick(&ids);
    let shape = plan.replies.get_mut(&id).unwrap();
    shape.fields = *rng.pick(&[513u32, 600, 1025, 2049, 4000]);
    shape.value_len = rng.below(9) as u32;
    shape.distinct_keys = rng.chance(1, 3);
    plan.net.s2c_mode = rng
        .pick(&[SegMode::Whole, SegMode::Sizes(vec![4096]), SegMode::Sizes(vec![16384]), SegMode::Sizes(vec![1000, 5000])])
        .clone();
    plan.net.s2c_delay_ms = vec![0];
    plan.net.read_pending = vec![0];
    true
}

/// An application whose event loop has a ticker of its own (see `Consumer::Ticking`).
pub fn ticking_consumer(rng: &mut Rng, plan: &Plan) -> Consumer {
    Consumer::Ticking {
        period_ms: *rng.pick(&[1u64, 1, 2, 3, 7]),
        until_ms: (rough_span(plan)
            .max(plan.changes.iter().map(|c| c.at_ms).max().unwrap_or(0))
            + 300)
            .min(4000),
        form: rng.below(3) as u8,
    }
}

/// A long quiet stretch (ten seconds to half an hour) in the middle of the session: one more caller
/// that waits that long and then issues a request. A client that does something of its own on a
/// long timer (keep-alive, refresh, liveness probe) is active at instants no short scenario
/// reaches; `retarget_changes`, called afterwards, moves change events next to whatever it did
/// there (on the code as it stands: nothing, the stretch is simply silent).
pub fn add_long_quiet(rng: &mut Rng, plan: &mut Plan, ids: &mut Ids) {
    let ms = *rng.pick(&[10_500u64, 31_000, 61_000, 125_000, 301_000, 601_000, 1_801_000]);
    let id = ids.next();
    plan.callers.push(vec![Op::Think { ms }, Op::Request { id }]);
    for _ in 0..rng.urange(1, 3) {
        plan.changes.push(ChangeEvent {
            at_ms: rng.below(ms),
            names: gen_names(rng, false, 2),
        });
    }
    plan.changes.sort_by_key(|c| c.at_ms);
}

/// Plans with hundreds of operations or notifications get a coarse network: every event of a
/// run is logged, and a long history fed bytewise with millisecond gaps would spend its whole
/// event budget on reads.
pub fn tame_net_for_big_plans(plan: &mut Plan) {
    let ops: usize = plan.callers.iter().flatten().map(|o| o.ids().len().max(1)).sum();
    if ops > 100 || plan.changes.len() > 200 {
        if !matches!(plan.net.s2c_mode, SegMode::Whole | SegMode::Lines | SegMode::BeforeLastLine) {
            plan.net.s2c_mode = SegMode::Lines;
        }
        plan.net.s2c_delay_ms = vec![0];
        plan.net.read_pending = vec![0];
        plan.net.write_chunk = vec![usize::MAX];
        plan.net.write_pending = vec![0];
    }
}

// ---------------------------------------------------------------------------------------------
// Systematic timing sweep: small scenarios, every placement on the millisecond grid

fn sweep_net(v: usize) -> NetPolicy {
    match v {
        0 => NetPolicy::default(),
        1 => NetPolicy {
            s2c_mode: SegMode::Lines,
            s2c_delay_ms: vec![1],
            ..NetPolicy::default()
        },
        _ => NetPolicy {
            s2c_mode: SegMode::Sizes(vec![7]),
            s2c_delay_ms: vec![0, 1],
            c2s_latency_ms: vec![1],
            ..NetPolicy::default()
        },
    }
}

fn think_then(ms: u64, op: Op) -> Vec<Op> {
    if ms == 0 {
        vec![op]
    } else {
        vec![Op::Think { ms }, op]
    }
}

/// Number of plans in the systematic sweep.
pub fn timing_sweep_len() -> u64 {
    let f1 = 11 * 11 * 2 * 3 * 2;
    let f2 = 11 * 18 * 3 * 2;
    let f3 = 7 * 7 * 7 * 3 * 2;
    let f4 = 7 * 4 * 9 * 7 * 2 * 2;
    (f1 + f2 + f3 + f4) as u64
}

/// The `i`-th plan of the systematic sweep: every relative placement (1 ms grid) of one or two
/// requests, a cancellation and a two-subsystem change event, times three network variants and
/// two `select!` seeds. Independent of the batch seed.
pub fn timing_sweep_plan(i: u64) -> Plan {
    let idx = i as usize;
    let cur = std::cell::Cell::new(idx);
    let take = |n: usize| {
        let v = cur.get() % n;
        cur.set(cur.get() / n);
        v
    };
    let mut p = Plan::empty(0);
    let change = |at: u64| ChangeEvent {
        at_ms: at,
        names: vec!["player".to_string(), "mixer".to_string()],
    };
    let f1 = 11 * 11 * 2 * 3 * 2;
    let f2 = 11 * 18 * 3 * 2;
    let f3 = 7 * 7 * 7 * 3 * 2;
    let total_before_f4 = f1 + f2 + f3;
    if idx < f1 {
        // F1: one request, one change
        let (tr, tc, d, v, s) = (take(11), take(11), take(2), take(3), take(2));
        p.callers = vec![think_then(tr as u64, Op::Request { id: 1 })];
        p.changes = vec![change(tc as u64)];
        p.replies.insert(1, ReplyShape { fields: 1, value_len: 3, delay_ms: (d * 2) as u32, ..Default::default() });
        p.net = sweep_net(v);
        p.tokio_seed = s as u64;
    } else if idx < f1 + f2 {
        // F2: a second request around the end of the re-idle window, change near either
        cur.set(idx - f1);
        let (w, tci, v, s) = (take(11), take(18), take(3), take(2));
        let tc = if tci < 9 { tci as u64 } else { 100 + (tci as u64 - 9) };
        p.callers = vec![vec![
            Op::Request { id: 1 },
            Op::Think { ms: 95 + w as u64 },
            Op::Request { id: 2 },
        ]];
        p.changes = vec![change(tc)];
        p.replies.insert(1, ReplyShape { fields: 1, value_len: 2, ..Default::default() });
        p.replies.insert(2, ReplyShape { fields: 0, value_len: 0, delay_ms: 1, ..Default::default() });
        p.net = sweep_net(v);
        p.tokio_seed = s as u64;
    } else if idx < total_before_f4 {
        // F3: two callers and a change
        cur.set(idx - f1 - f2);
        let (ta, tb, tc, v, s) = (take(7), take(7), take(7), take(3), take(2));
        p.callers = vec![
            think_then(ta as u64, Op::Request { id: 1 }),
            think_then(tb as u64, Op::List { ids: vec![2, 3] }),
        ];
        p.changes = vec![change(tc as u64)];
        p.replies.insert(1, ReplyShape { fields: 1, value_len: 2, delay_ms: 1, ..Default::default() });
        p.replies.insert(2, ReplyShape { fields: 1, value_len: 1, ..Default::default() });
        p.replies.insert(3, ReplyShape { fail: Some(50), partial_fields: 1, ..Default::default() });
        p.net = sweep_net(v);
        p.tokio_seed = s as u64;
    } else {
        // F4: a cancelled request, a following request, a change
        cur.set(idx - total_before_f4);
        let (tr, c, t2, tc, v, s) = (take(7), take(4), take(9), take(7), take(2), take(2));
        p.callers = vec![
            {
                let mut c0 = think_then(
                    tr as u64,
                    Op::Cancel { op: Box::new(Op::Request { id: 1 }), after_ms: c as u64 },
                );
                c0.push(Op::Request { id: 2 });
                c0
            },
            think_then(t2 as u64, Op::Request { id: 3 }),
        ];
        p.changes = vec![change(tc as u64)];
        p.replies.insert(1, ReplyShape { fields: 1, value_len: 1, delay_ms: 2, ..Default::default() });
        p.replies.insert(2, ReplyShape::default());
        p.replies.insert(3, ReplyShape { fields: 1, value_len: 1, ..Default::default() });
        p.net = sweep_net(v + 1);
        p.tokio_seed = s as u64;
    }
    p
}

pub fn base_plan(rng: &mut Rng) -> Plan {
    let mut p = Plan::empty(rng.next_u64());
    p.version = (*rng.pick(&["0.23.5", "0.21.11", "0.24", "0.19.0~git x"])).to_string();
    p.connect_via_opt = rng.chance(1, 8);
    p
}

// ---------------------------------------------------------------------------------------------
// Pictures (C17)

const PAYLOAD_SNIPPETS: &[&[u8]] = &[
    b"OK\n",
    b"list_OK\n",
    b"ACK [50@0] {albumart} No file exists\n",
    b"binary: 9\n",
    b"\0",
    b"\xff",
    b"size: 1\n",
    b"\n",
];

pub fn gen_picture_bytes(rng: &mut Rng, limit: usize) -> Vec<u8> {
    let k = rng.urange(2, 5);
    let size = match rng.below(14) {
        0 => 0,
        1 => 1,
        2 => limit.saturating_sub(1),
        3 => limit,
        4 => limit + 1,
        5 => k * limit,
        6 => (k * limit).saturating_sub(1),
        7 => k * limit + 1,
        8 => *rng.pick(&[4095usize, 4096, 4097, 8192, 8193, 16384, 20000]),
        _ => rng.urange(0, (limit * 4).min(5000)),
    };
    // at most ~80 chunk requests per picture, at most 48 KiB
    let size = size.min(48 * 1024).min(limit.max(1) * 80);
    let mut b = rng.bytes(size);
    // sprinkle protocol-looking snippets
    if size > 0 {
        for _ in 0..rng.urange(0, 4) {
            let sn = *rng.pick(PAYLOAD_SNIPPETS);
            if sn.len() <= size {
                let at = rng.usize_below(size - sn.len() + 1);
                b[at..at + sn.len()].copy_from_slice(sn);
            }
        }
    }
    b
}

pub fn gen_picture(rng: &mut Rng, uri: String, limit: usize) -> Picture {
    let mut pic = gen_picture_raw(rng, uri, limit);
    // a server that hands out short chunks needs more requests: keep it at about 80 per picture
    if let Some(min_cap) = pic.chunk_caps.iter().copied().min() {
        let max = 80 * min_cap.max(1);
        if let Some(e) = pic.embedded.as_mut() {
            e.data.truncate(max);
        }
        if let Cover::Bytes(b) = &mut pic.cover {
            b.truncate(max);
        }
    }
    pic
}

fn gen_picture_raw(rng: &mut Rng, uri: String, limit: usize) -> Picture {
    let embedded = if rng.chance(1, 2) {
        Some(Embedded {
            data: gen_picture_bytes(rng, limit),
            mime: if rng.chance(2, 3) {
                Some((*rng.pick(&["image/jpeg", "image/png", "x", "image/svg+xml; charset=utf-8"])).to_string())
            } else {
                None
            },
        })
    } else {
        None
    };
    let cover = match rng.below(4) {
        0 => Cover::NoneOk,
        1 => Cover::NoneAck,
        _ => Cover::Bytes(gen_picture_bytes(rng, limit)),
    };
    Picture {
        uri,
        embedded,
        cover,
        readpicture_unknown: rng.chance(1, 6),
        readpicture_error: if rng.chance(1, 8) {
            Some(*rng.pick(&[2u64, 4, 5, 50, 52, 56]))
        } else {
            None
        },
        albumart_error: if rng.chance(1, 10) {
            Some(*rng.pick(&[2u64, 4, 5, 50, 52]))
        } else {
            None
        },
        chunk_caps: if rng.chance(1, 5) {
            (0..rng.urange(1, 3))
                .map(|_| rng.urange(1, limit.max(1)))
                .collect()
        } else {
            Vec::new()
        },
        header_before_error: rng.chance(1, 3),
        mime_only_first_chunk: rng.chance(1, 4),
        embedded_vanishes_at: None,
        later_error: if rng.chance(1, 8) {
            Some((
                *rng.pick(&[1u64, 2, limit as u64, limit as u64 + 1, 3 * limit as u64, 5000]),
                *rng.pick(&[50u64, 52, 2, 5]),
            ))
        } else {
            None
        },
    }
}

// ---------------------------------------------------------------------------------------------
// Faults (C08)

pub const ERR_KINDS: &[&str] = &[
    "ConnectionReset",
    "BrokenPipe",
    "TimedOut",
    "ConnectionAborted",
    "Other",
    // what a TLS stream reports when the peer vanishes without close_notify: an *error* of the
    // same kind the library itself uses for a cut stream
    "UnexpectedEof",
    "InvalidData",
];

/// Garbage always contains a byte sequence no production accepts, whatever it is spliced into.
pub fn gen_garbage(rng: &mut Rng) -> Vec<u8> {
    (*rng.pick(&[
        &b"\xff\n\xff\n"[..],
        b"\xff\xfe\xfd\n\xff\n",
        b"\xffgarbage without separator\n\xff\n",
        b"\xff\n",
    ]))
    .to_vec()
}

/// Facts about the fault-free execution of a plan, used to place faults inside operations.
pub struct Dry {
    pub s2c_len: usize,
    pub greeting_end: usize,
    pub writes: u64,
    pub busy_until_ms: u64,
    pub responses: u32,
    pub instants: Vec<u64>,
    pub boundaries: Vec<usize>,
}

pub fn dry_run(plan: &Plan) -> Dry {
    let mut p = plan.clone();
    p.faults.clear();
    p.probe_request = false;
    let out = execute(&p);
    let q = out
        .log
        .iter()
        .find(|e| e.seq == out.quiescence_seq)
        .map(|e| e.ms)
        .unwrap_or(0);
    // only the part before the epilogue counts
    let s2c_len = out
        .responses
        .iter()
        .filter(|r| r.written_ms < q)
        .map(|r| r.end)
        .max()
        .unwrap_or(0);
    let writes = out
        .log
        .iter()
        .filter(|e| e.ms < q && matches!(e.ev, crate::session::net::Ev::ClientWrite { .. }))
        .count() as u64;
    let inst = instants(&out);
    Dry {
        s2c_len,
        greeting_end: out.greeting_end,
        writes,
        busy_until_ms: inst.last().copied().unwrap_or(0),
        responses: out
            .responses
            .iter()
            .filter(|r| r.written_ms < q)
            .count()
            .saturating_sub(1) as u32,
        instants: inst,
        boundaries: out
            .responses
            .iter()
            .filter(|r| r.written_ms < q)
            .map(|r| r.end)
            .collect(),
    }
}

pub fn gen_fault(rng: &mut Rng, dry: &Dry) -> Fault {
    let off = |rng: &mut Rng| {
        if dry.s2c_len > dry.greeting_end {
            // bias towards response boundaries ±2
            if rng.chance(1, 4) && !dry.boundaries.is_empty() {
                let b = *rng.pick(&dry.boundaries);
                (b + rng.urange(0, 4)).saturating_sub(2).clamp(dry.greeting_end, dry.s2c_len)
            } else {
                rng.urange(dry.greeting_end, dry.s2c_len)
            }
        } else {
            dry.greeting_end
        }
    };
    let time = |rng: &mut Rng| {
        if !dry.instants.is_empty() && rng.chance(3, 4) {
            let t = *rng.pick(&dry.instants);
            (t as i64 + *rng.pick(&[-1i64, 0, 0, 1, 2])).max(0) as u64
        } else {
            rng.below(dry.busy_until_ms + 150)
        }
    };
    let write = |rng: &mut Rng| rng.below(dry.writes.max(1));
    match rng.below(13) {
        12 => Fault {
            kind: FaultKind::IdleDenied(*rng.pick(&[4u64, 4, 5, 2, 52])),
            trigger: if rng.chance(1, 2) {
                Trigger::AtTime(time(rng))
            } else {
                Trigger::AfterResponse(rng.below(dry.responses.max(1) as u64) as u32)
            },
        },
        0 => Fault {
            kind: FaultKind::CloseClean,
            trigger: Trigger::AtTime(time(rng)),
        },
        1 => Fault {
            kind: FaultKind::CloseClean,
            trigger: Trigger::AfterResponse(rng.below(dry.responses.max(1) as u64) as u32),
        },
        2 | 3 => Fault {
            kind: FaultKind::Cut,
            trigger: Trigger::AtS2cOffset(off(rng)),
        },
        4 => Fault {
            kind: FaultKind::ReadErr((*rng.pick(ERR_KINDS)).to_string()),
            trigger: Trigger::AtS2cOffset(off(rng)),
        },
        5 => Fault {
            kind: FaultKind::ReadErr((*rng.pick(ERR_KINDS)).to_string()),
            trigger: Trigger::AtTime(time(rng)),
        },
        6 => Fault {
            kind: FaultKind::WriteErr((*rng.pick(ERR_KINDS)).to_string()),
            trigger: Trigger::AtWrite(write(rng)),
        },
        7 => Fault {
            kind: FaultKind::WriteErr((*rng.pick(ERR_KINDS)).to_string()),
            trigger: Trigger::AtTime(time(rng)),
        },
        8 => Fault {
            kind: FaultKind::Reset,
            trigger: if rng.chance(1, 2) {
                Trigger::AtWrite(write(rng))
            } else {
                Trigger::AtTime(time(rng))
            },
        },
        9 => Fault {
            kind: FaultKind::Reset,
            trigger: Trigger::AtS2cOffset(off(rng)),
        },
        _ => Fault {
            kind: FaultKind::Garbage(gen_garbage(rng)),
            trigger: Trigger::AtS2cOffset(off(rng)),
        },
    }
}

// ---------------------------------------------------------------------------------------------
// Shrinking

fn simplify_op(op: &Op) -> Vec<Op> {
    let mut v = Vec::new();
    match op {
        Op::Burst { ops } => {
            for o in ops.iter().take(4) {
                v.push(o.clone());
            }
            if ops.len() > 8 {
                v.push(Op::Burst { ops: ops[..ops.len() / 2].to_vec() });
                v.push(Op::Burst { ops: ops[ops.len() / 2..].to_vec() });
            } else if ops.len() > 2 {
                for i in 0..ops.len() {
                    let mut o2 = ops.clone();
                    o2.remove(i);
                    v.push(Op::Burst { ops: o2 });
                }
            }
        }
        Op::Cancel { op, after_ms } => {
            if *after_ms > 0 {
                v.push(Op::Cancel {
                    op: op.clone(),
                    after_ms: 0,
                });
                v.push(Op::Cancel {
                    op: op.clone(),
                    after_ms: after_ms / 2,
                });
            }
            for s in simplify_op(op) {
                v.push(Op::Cancel {
                    op: Box::new(s),
                    after_ms: *after_ms,
                });
            }
        }
        Op::List { ids } | Op::TypedList { ids } => {
            if let Op::TypedList { .. } = op {
                v.push(Op::List { ids: ids.clone() });
            }
            if ids.len() > 1 {
                for i in 0..ids.len() {
                    let mut l = ids.clone();
                    l.remove(i);
                    v.push(Op::List { ids: l });
                }
            }
        }
        Op::Typed { id } => v.push(Op::Request { id: *id }),
        Op::Think { ms } => {
            if *ms > 0 {
                v.push(Op::Think { ms: 0 });
                v.push(Op::Think { ms: ms / 2 });
                if *ms <= 8 || *ms % 50 < 2 {
                    v.push(Op::Think { ms: ms - 1 });
                }
            }
        }
        Op::Yield { n } if *n > 1 => v.push(Op::Yield { n: 1 }),
        _ => {}
    }
    v
}

pub fn shrink_plan(plan: &Plan) -> Vec<Plan> {
    let mut out = Vec::new();
    let mut push = |p: Plan| {
        if p != *plan {
            out.push(p);
        }
    };
    // whole callers
    if plan.callers.len() > 1 {
        for i in 0..plan.callers.len() {
            let mut p = plan.clone();
            p.callers.remove(i);
            push(p);
        }
    }
    // all change events at once, then single ones
    if !plan.changes.is_empty() {
        let mut p = plan.clone();
        p.changes.clear();
        push(p);
        if plan.changes.len() > 1 {
            for i in 0..plan.changes.len() {
                let mut p = plan.clone();
                p.changes.remove(i);
                push(p);
            }
        }
    }
    if plan.faults.len() > 1 {
        for i in 0..plan.faults.len() {
            let mut p = plan.clone();
            p.faults.remove(i);
            push(p);
        }
    }
    // network simplifications
    {
        let d = NetPolicy::default();
        let mut p = plan.clone();
        p.net = d.clone();
        push(p);
        let mut p = plan.clone();
        p.net.s2c_mode = d.s2c_mode.clone();
        push(p);
        if matches!(plan.net.s2c_mode, SegMode::Sizes(_)) {
            let mut p = plan.clone();
            p.net.s2c_mode = SegMode::BeforeLastLine;
            push(p);
            let mut p = plan.clone();
            p.net.s2c_mode = SegMode::Lines;
            push(p);
        }
        let mut p = plan.clone();
        p.net.s2c_delay_ms = vec![0];
        push(p);
        if plan.net.s2c_delay_ms != vec![0] && plan.net.s2c_delay_ms != vec![1] {
            let mut p = plan.clone();
            p.net.s2c_delay_ms = vec![1];
            push(p);
        }
        let mut p = plan.clone();
        p.net.s2c_latency_ms = 0;
        push(p);
        let mut p = plan.clone();
        p.net.read_pending = vec![0];
        push(p);
        let mut p = plan.clone();
        p.net.c2s_latency_ms = vec![0];
        push(p);
        let mut p = plan.clone();
        p.net.write_chunk = vec![usize::MAX];
        push(p);
        let mut p = plan.clone();
        p.net.write_pending = vec![0];
        push(p);
        if plan.net.eof_delay_ms > 0 {
            let mut p = plan.clone();
            p.net.eof_delay_ms = 0;
            push(p);
            let mut p = plan.clone();
            p.net.eof_delay_ms = plan.net.eof_delay_ms / 2;
            push(p);
        }
        if let SegMode::Sizes(s) = &plan.net.s2c_mode {
            if s.len() > 1 {
                let mut p = plan.clone();
                p.net.s2c_mode = SegMode::Sizes(vec![s[0]]);
                push(p);
            }
        }
    }
    // ops
    for (ci, c) in plan.callers.iter().enumerate() {
        for oi in 0..c.len() {
            let mut p = plan.clone();
            p.callers[ci].remove(oi);
            if !p.callers[ci].is_empty() || p.callers.len() > 1 {
                if p.callers[ci].is_empty() {
                    p.callers.remove(ci);
                }
                push(p);
            }
        }
        for (oi, op) in c.iter().enumerate() {
            for s in simplify_op(op) {
                let mut p = plan.clone();
                p.callers[ci][oi] = s;
                push(p);
            }
        }
    }
    // change events: fewer names, earlier times
    for (i, c) in plan.changes.iter().enumerate() {
        if c.names.len() > 1 {
            for j in 0..c.names.len() {
                let mut p = plan.clone();
                p.changes[i].names.remove(j);
                push(p);
            }
        }
        for (j, n) in c.names.iter().enumerate() {
            if n != "player" && n != "mixer" && !c.names.contains(&"player".to_string()) {
                let mut p = plan.clone();
                p.changes[i].names[j] = "player".into();
                push(p);
            }
        }
        if c.at_ms > 0 {
            let mut p = plan.clone();
            p.changes[i].at_ms = 0;
            p.changes.sort_by_key(|c| c.at_ms);
            push(p);
            let mut p = plan.clone();
            p.changes[i].at_ms = c.at_ms / 2;
            p.changes.sort_by_key(|c| c.at_ms);
            push(p);
            if c.at_ms <= 8 {
                let mut p = plan.clone();
                p.changes[i].at_ms = c.at_ms - 1;
                p.changes.sort_by_key(|c| c.at_ms);
                push(p);
            } else {
                let mut p = plan.clone();
                p.changes[i].at_ms = c.at_ms - c.at_ms / 8;
                p.changes.sort_by_key(|c| c.at_ms);
                push(p);
            }
        }
    }
    // reply shapes
    let used: Vec<u64> = plan.callers.iter().flatten().flat_map(|o| o.ids()).collect();
    {
        let mut p = plan.clone();
        p.replies.retain(|k, _| used.contains(k));
        push(p);
        let mut p = plan.clone();
        for s in p.replies.values_mut() {
            s.fields = 0;
            s.value_len = 0;
            s.binary = None;
            s.delay_ms = 0;
            if s.partial_fields > 1 {
                s.partial_fields = 1;
            }
        }
        push(p);
    }
    for (id, s) in &plan.replies {
        if !used.contains(id) {
            continue;
        }
        let mut variants = Vec::new();
        if s.fields > 0 {
            variants.push(ReplyShape { fields: 0, ..s.clone() });
            variants.push(ReplyShape { fields: s.fields / 2, ..s.clone() });
        }
        if s.value_len > 0 {
            variants.push(ReplyShape { value_len: 0, ..s.clone() });
            variants.push(ReplyShape { value_len: s.value_len / 2, ..s.clone() });
        }
        if s.binary.is_some() {
            variants.push(ReplyShape { binary: None, ..s.clone() });
            variants.push(ReplyShape { binary: s.binary.map(|b| b / 2), ..s.clone() });
        }
        if s.delay_ms > 0 {
            variants.push(ReplyShape { delay_ms: 0, ..s.clone() });
            variants.push(ReplyShape { delay_ms: s.delay_ms / 2, ..s.clone() });
        }
        if s.fail.is_some() {
            variants.push(ReplyShape { fail: None, partial_fields: 0, ..s.clone() });
        }
        if s.partial_fields > 0 {
            variants.push(ReplyShape { partial_fields: 0, ..s.clone() });
            variants.push(ReplyShape { partial_fields: 1, ..s.clone() });
        }
        for v in variants {
            let mut p = plan.clone();
            p.replies.insert(*id, v);
            push(p);
        }
    }
    // pictures
    for (i, pic) in plan.pictures.iter().enumerate() {
        let used_uri = plan
            .callers
            .iter()
            .flatten()
            .any(|o| matches!(o, Op::AlbumArt { uri } if *uri == pic.uri)
                || matches!(o, Op::Cancel { op, .. } if matches!(&**op, Op::AlbumArt { uri } if *uri == pic.uri)));
        if !used_uri {
            let mut p = plan.clone();
            p.pictures.remove(i);
            push(p);
            continue;
        }
        if let Some(e) = &pic.embedded {
            if e.data.len() > 1 {
                let mut p = plan.clone();
                p.pictures[i].embedded = Some(Embedded {
                    data: e.data[..e.data.len() / 2].to_vec(),
                    mime: e.mime.clone(),
                });
                push(p);
                let mut p = plan.clone();
                p.pictures[i].embedded = Some(Embedded {
                    data: e.data[..e.data.len() - 1].to_vec(),
                    mime: e.mime.clone(),
                });
                push(p);
            }
            if e.data.iter().any(|b| *b != b'a') {
                let mut p = plan.clone();
                p.pictures[i].embedded = Some(Embedded {
                    data: (0..e.data.len()).map(|k| b'a' + (k % 26) as u8).collect(),
                    mime: e.mime.clone(),
                });
                push(p);
            }
        }
        if let Cover::Bytes(b) = &pic.cover {
            if b.len() > 1 {
                let mut p = plan.clone();
                p.pictures[i].cover = Cover::Bytes(b[..b.len() / 2].to_vec());
                push(p);
                let mut p = plan.clone();
                p.pictures[i].cover = Cover::Bytes(b[..b.len() - 1].to_vec());
                push(p);
            }
            if b.iter().any(|x| *x != b'a') {
                let mut p = plan.clone();
                p.pictures[i].cover =
                    Cover::Bytes((0..b.len()).map(|k| b'a' + (k % 26) as u8).collect());
                push(p);
            }
        }
    }
    if plan.binary_limit > 1 {
        // a smaller limit means more chunk requests: never let shrinking turn a plan into one
        // that is merely heavy
        let biggest = plan
            .pictures
            .iter()
            .map(|p| {
                let e = p.embedded.as_ref().map(|e| e.data.len()).unwrap_or(0);
                let c = match &p.cover {
                    Cover::Bytes(b) => b.len(),
                    _ => 0,
                };
                e.max(c)
            })
            .max()
            .unwrap_or(0);
        if biggest / (plan.binary_limit / 2).max(1) <= 100 {
            let mut p = plan.clone();
            p.binary_limit = plan.binary_limit / 2;
            push(p);
        }
    }
    // misc
    if plan.tokio_seed > 1 {
        let mut p = plan.clone();
        p.tokio_seed = 0;
        push(p);
        let mut p = plan.clone();
        p.tokio_seed = 1;
        push(p);
    }
    if plan.consumer != Consumer::Drain {
        let mut p = plan.clone();
        p.consumer = Consumer::Drain;
        push(p);
    }
    if plan.probe_request {
        let mut p = plan.clone();
        p.probe_request = false;
        push(p);
    }
    if plan.connect_via_opt {
        let mut p = plan.clone();
        p.connect_via_opt = false;
        push(p);
    }
    // long runs of change events: halve
    if plan.changes.len() > 8 {
        let mut p = plan.clone();
        p.changes.truncate(plan.changes.len() / 2);
        push(p);
        let mut p = plan.clone();
        p.changes.drain(..plan.changes.len() / 2);
        push(p);
    }
    if let Consumer::StartAt(t) = plan.consumer {
        if t > 0 {
            let mut p = plan.clone();
            p.consumer = Consumer::StartAt(t / 2);
            push(p);
        }
    }
    if plan.version != "1" {
        let mut p = plan.clone();
        p.version = "1".into();
        push(p);
    }
    out
}
