//! Executing a plan: the director, the scripted caller tasks and the event consumer, all plain
//! tokio tasks on one current-thread runtime with a paused clock and a seeded RNG. The client,
//! its run loop and the protocol layer underneath are the real code.

use std::future::Future;
use std::pin::Pin;
use std::sync::{Arc, Mutex};
use std::task::{Context, Poll};
use std::time::Duration;

use mpd_client::client::{
    CommandError, ConnectWithPasswordError, ConnectionError, ConnectionEvent, ConnectionEvents,
};
use mpd_client::commands::Command as TypedCommand;
use mpd_client::protocol::command::{Command as RawCommand, CommandList as RawCommandList};
use mpd_client::protocol::response::Frame;
use mpd_client::protocol::MpdProtocolError;
use mpd_client::responses::TypedResponseError;
use mpd_client::Client;

use crate::canon::{cerr, cframe, terminal_of, CErr, CFrame, Terminal};
use crate::panics;
use crate::session::mpd::{RespKind, UnitRecord};
use crate::session::net::{
    digest_log, pump, signature_log, ClientEndpoint, EndInfo, Ev, JudgeState, LogEntry,
    RespRecord, Shared, World,
};
use crate::session::plan::{Consumer, Op, Plan};

#[derive(Clone, Debug, PartialEq, Eq)]
pub enum OpResult {
    Frame(CFrame),
    Frames(Vec<CFrame>),
    ErrResponse { err: CErr, frames: Vec<CFrame> },
    ErrClosed,
    ErrProtocol(Terminal),
    ErrTyped(String),
    Art(Option<(Vec<u8>, Option<String>)>),
    Cancelled,
    /// the future never completed
    Hung,
    Panicked,
}

impl OpResult {
    pub fn summary(&self) -> String {
        match self {
            OpResult::Frame(f) => format!("Ok({})", f.summary()),
            OpResult::Frames(fs) => format!(
                "Ok([{}])",
                fs.iter().map(|f| f.summary()).collect::<Vec<_>>().join(" ")
            ),
            OpResult::ErrResponse { err, frames } => format!(
                "Err(ACK[{}@{}] {:?} after {} frames)",
                err.code,
                err.index,
                err.message,
                frames.len()
            ),
            OpResult::ErrClosed => "Err(ConnectionClosed)".into(),
            OpResult::ErrProtocol(t) => format!("Err(Protocol({:?}))", t),
            OpResult::ErrTyped(s) => format!("Err(InvalidTypedResponse({}))", s),
            OpResult::Art(None) => "Ok(None)".into(),
            OpResult::Art(Some((b, m))) => format!("Ok(Some({} bytes, {:?}))", b.len(), m),
            OpResult::Cancelled => "cancelled".into(),
            OpResult::Hung => "HUNG".into(),
            OpResult::Panicked => "PANICKED".into(),
        }
    }
    pub fn is_err(&self) -> bool {
        matches!(
            self,
            OpResult::ErrResponse { .. }
                | OpResult::ErrClosed
                | OpResult::ErrProtocol(_)
                | OpResult::ErrTyped(_)
        )
    }
}

#[derive(Clone, Debug)]
pub struct OpRecord {
    pub caller: usize,
    /// index in the caller's script
    pub op: usize,
    /// index within a burst
    pub sub: usize,
    pub kind: &'static str,
    pub ids: Vec<u64>,
    pub uri: Option<String>,
    pub invoke_seq: u64,
    pub invoke_ms: u64,
    pub return_seq: Option<u64>,
    pub return_ms: Option<u64>,
    pub result: OpResult,
    pub cancel_after: Option<u64>,
}

#[derive(Clone, Debug, PartialEq, Eq)]
pub enum EventRec {
    Change(String),
    Closed(String),
    StreamEnd,
}

#[derive(Clone, Debug, Default)]
pub enum ConnectOutcome {
    Ok(String),
    IncorrectPassword,
    Protocol(Terminal),
    #[default]
    Hung,
}

#[derive(Default)]
pub struct Recorder {
    pub ops: Vec<OpRecord>,
    pub events: Vec<(u64, u64, EventRec)>,
    pub receiver_dropped_seq: Option<u64>,
}

/// Everything the oracles look at after a run.
#[derive(Default)]
pub struct RunOutput {
    pub plan_fault_free: bool,
    pub log: Vec<LogEntry>,
    pub ops: Vec<OpRecord>,
    pub events: Vec<(u64, u64, EventRec)>,
    pub receiver_dropped_seq: Option<u64>,
    pub connect: ConnectOutcome,
    pub units: Vec<UnitRecord>,
    pub responses: Vec<RespRecord>,
    pub server_lines: Vec<String>,
    pub server_violations: Vec<(String, String)>,
    pub judge: JudgeState,
    pub s2c: Vec<u8>,
    pub s2c_read: usize,
    pub c2s: Vec<u8>,
    pub greeting_end: usize,
    pub end: Option<EndInfo>,
    pub client_observed_end: Option<u64>,
    pub observed_kind: Option<String>,
    pub endpoint_dropped: Option<u64>,
    pub faults_fired: Vec<String>,
    pub garbage_at: Option<usize>,
    pub panics: Vec<String>,
    /// is_connection_closed() on every retained handle at quiescence
    pub closed_flags: Vec<bool>,
    /// was the server waiting in idle at quiescence (before the final probe)?
    pub idle_at_quiescence: bool,
    /// seq/time marks of the epilogue
    pub quiescence_seq: u64,
    pub probe_change_seq: Option<u64>,
    pub probe_request: Option<OpRecord>,
    pub handles_dropped_seq: u64,
    pub c2s_len_at_connect_result: usize,
    pub callers_all_done: bool,
    pub probes: std::collections::BTreeMap<&'static str, u64>,
    pub sim_ms: u64,
    pub digest: u64,
    pub signature: u64,
    pub noidle_ignored: u64,
    pub idle_immediate: u64,
    pub protocol_version: Option<String>,
}

/// Harness-defined typed command: `req <id>`, response = the frame itself.
struct Echo(u64);

impl TypedCommand for Echo {
    type Response = Frame;
    fn command(&self) -> RawCommand {
        RawCommand::new("req").argument(self.0)
    }
    fn response(self, frame: Frame) -> Result<Frame, TypedResponseError> {
        Ok(frame)
    }
}

fn raw_req(id: u64) -> RawCommand {
    RawCommand::new("req").argument(id)
}

fn protocol_terminal(e: &MpdProtocolError) -> Terminal {
    terminal_of(e)
}

fn conv_err(e: CommandError) -> OpResult {
    match e {
        CommandError::ConnectionClosed => OpResult::ErrClosed,
        CommandError::Protocol(p) => OpResult::ErrProtocol(protocol_terminal(&p)),
        CommandError::ErrorResponse {
            error,
            succesful_frames,
        } => OpResult::ErrResponse {
            err: cerr(&error),
            frames: succesful_frames.iter().map(cframe).collect(),
        },
        CommandError::InvalidTypedResponse(t) => OpResult::ErrTyped(format!("{:?}", t)),
    }
}

type BoxFut = Pin<Box<dyn Future<Output = OpResult> + Send>>;

fn op_future(client: &Client, op: &Op) -> BoxFut {
    let c = client.clone();
    match op.clone() {
        Op::Request { id } => Box::pin(async move {
            match c.raw_command(raw_req(id)).await {
                Ok(f) => OpResult::Frame(cframe(&f)),
                Err(e) => conv_err(e),
            }
        }),
        Op::Typed { id } => Box::pin(async move {
            match c.command(Echo(id)).await {
                Ok(f) => OpResult::Frame(cframe(&f)),
                Err(e) => conv_err(e),
            }
        }),
        Op::List { ids } => Box::pin(async move {
            let mut it = ids.iter();
            let mut list = RawCommandList::new(raw_req(*it.next().expect("non-empty list")));
            for id in it {
                list.add(raw_req(*id));
            }
            match c.raw_command_list(list).await {
                Ok(fs) => OpResult::Frames(fs.iter().map(cframe).collect()),
                Err(e) => conv_err(e),
            }
        }),
        Op::TypedList { ids } => Box::pin(async move {
            let list: Vec<Echo> = ids.iter().map(|i| Echo(*i)).collect();
            match c.command_list(list).await {
                Ok(fs) => OpResult::Frames(fs.iter().map(cframe).collect()),
                Err(e) => conv_err(e),
            }
        }),
        Op::AlbumArt { uri } => Box::pin(async move {
            match c.album_art(&uri).await {
                Ok(None) => OpResult::Art(None),
                Ok(Some((data, mime))) => OpResult::Art(Some((data.to_vec(), mime))),
                Err(e) => conv_err(e),
            }
        }),
        other => panic!("not a leaf op: {:?}", other),
    }
}

/// Polls the futures in order (so they are first polled — i.e. enqueued — in order) and
/// completes when all have completed.
struct JoinAll {
    futs: Vec<Option<BoxFut>>,
    done: Vec<Option<OpResult>>,
    on_done: Box<dyn FnMut(usize) + Send>,
}

impl Future for JoinAll {
    type Output = Vec<OpResult>;
    fn poll(mut self: Pin<&mut Self>, cx: &mut Context<'_>) -> Poll<Self::Output> {
        let this = &mut *self;
        let mut all = true;
        for i in 0..this.futs.len() {
            if let Some(f) = this.futs[i].as_mut() {
                match f.as_mut().poll(cx) {
                    Poll::Ready(r) => {
                        this.done[i] = Some(r);
                        this.futs[i] = None;
                        (this.on_done)(i);
                    }
                    Poll::Pending => all = false,
                }
            }
        }
        if all {
            Poll::Ready(this.done.iter_mut().map(|d| d.take().unwrap()).collect())
        } else {
            Poll::Pending
        }
    }
}

struct CallerCtx {
    idx: usize,
    world: Shared,
    rec: Arc<Mutex<Recorder>>,
}

impl CallerCtx {
    fn invoke(&self, op_idx: usize, sub: usize, op: &Op, cancel_after: Option<u64>) -> usize {
        let mut w = self.world.lock().unwrap_or_else(|e| e.into_inner());
        let seq = w.log(Ev::Invoke {
            caller: self.idx,
            op: op_idx,
            desc: format!("{}{:?}", op.kind(), op.ids()),
        });
        let ms = w.now_ms();
        drop(w);
        let mut r = self.rec.lock().unwrap_or_else(|e| e.into_inner());
        r.ops.push(OpRecord {
            caller: self.idx,
            op: op_idx,
            sub,
            kind: op.kind(),
            ids: op.ids(),
            uri: match op {
                Op::AlbumArt { uri } => Some(uri.clone()),
                _ => None,
            },
            invoke_seq: seq,
            invoke_ms: ms,
            return_seq: None,
            return_ms: None,
            result: OpResult::Hung,
            cancel_after,
        });
        r.ops.len() - 1
    }

    fn ret(&self, slot: usize, op_idx: usize, result: OpResult) {
        let mut w = self.world.lock().unwrap_or_else(|e| e.into_inner());
        let seq = w.log(Ev::Return {
            caller: self.idx,
            op: op_idx,
            result: crate::canon::clip(&result.summary(), 60),
        });
        let ms = w.now_ms();
        drop(w);
        let mut r = self.rec.lock().unwrap_or_else(|e| e.into_inner());
        let o = &mut r.ops[slot];
        o.return_seq = Some(seq);
        o.return_ms = Some(ms);
        o.result = result;
    }
}

async fn run_leaf(ctx: &CallerCtx, client: &Client, op_idx: usize, op: &Op, cancel: Option<u64>) {
    let slot = ctx.invoke(op_idx, 0, op, cancel);
    let fut = op_future(client, op);
    let result = match cancel {
        None => fut.await,
        Some(ms) => match tokio::time::timeout(Duration::from_millis(ms), fut).await {
            Ok(r) => r,
            Err(_) => OpResult::Cancelled,
        },
    };
    ctx.ret(slot, op_idx, result);
}

async fn caller_task(ctx: CallerCtx, client: Client, script: Vec<Op>) -> Option<Client> {
    let mut client = Some(client);
    for (op_idx, op) in script.iter().enumerate() {
        let Some(c) = client.as_ref() else { break };
        match op {
            Op::Think { ms } => tokio::time::sleep(Duration::from_millis(*ms)).await,
            Op::Yield { n } => {
                for _ in 0..*n {
                    tokio::task::yield_now().await;
                }
            }
            Op::DropHandle => {
                let mut w = ctx.world.lock().unwrap_or_else(|e| e.into_inner());
                w.log(Ev::Director(format!("caller {} drops its handle", ctx.idx)));
                drop(w);
                client = None;
            }
            Op::Cancel { op: inner, after_ms } => {
                run_leaf(&ctx, c, op_idx, inner, Some(*after_ms)).await;
            }
            Op::Burst { ops } => {
                let mut slots = Vec::new();
                let mut futs: Vec<Option<BoxFut>> = Vec::new();
                for (sub, o) in ops.iter().enumerate() {
                    slots.push(ctx.invoke(op_idx, sub, o, None));
                    futs.push(Some(op_future(c, o)));
                }
                // results are recorded as each future completes
                let n = futs.len();
                let world = ctx.world.clone();
                let idx = ctx.idx;
                let marks: Arc<Mutex<Vec<Option<(u64, u64)>>>> = Arc::new(Mutex::new(vec![None; n]));
                let marks2 = marks.clone();
                let results = JoinAll {
                    futs,
                    done: (0..n).map(|_| None).collect(),
                    on_done: Box::new(move |i| {
                        let mut w = world.lock().unwrap_or_else(|e| e.into_inner());
                        let seq = w.log(Ev::Return {
                            caller: idx,
                            op: op_idx,
                            result: format!("burst[{}]", i),
                        });
                        let ms = w.now_ms();
                        marks2.lock().unwrap_or_else(|e| e.into_inner())[i] = Some((seq, ms));
                    }),
                }
                .await;
                let marks = marks.lock().unwrap_or_else(|e| e.into_inner());
                let mut r = ctx.rec.lock().unwrap_or_else(|e| e.into_inner());
                for (i, res) in results.into_iter().enumerate() {
                    let o = &mut r.ops[slots[i]];
                    o.return_seq = marks[i].map(|m| m.0);
                    o.return_ms = marks[i].map(|m| m.1);
                    o.result = res;
                }
            }
            leaf => run_leaf(&ctx, c, op_idx, leaf, None).await,
        }
    }
    let mut w = ctx.world.lock().unwrap_or_else(|e| e.into_inner());
    w.log(Ev::CallerDone(ctx.idx));
    drop(w);
    client
}

fn event_rec(e: &ConnectionEvent) -> EventRec {
    match e {
        ConnectionEvent::SubsystemChange(s) => EventRec::Change(s.as_str().to_string()),
        ConnectionEvent::ConnectionClosed(ConnectionError::InvalidResponse) => {
            EventRec::Closed("InvalidResponse".into())
        }
        ConnectionEvent::ConnectionClosed(ConnectionError::Protocol(p)) => {
            EventRec::Closed(format!("Protocol({:?})", protocol_terminal(p)))
        }
    }
}

async fn consumer_task(
    mut events: ConnectionEvents,
    world: Shared,
    rec: Arc<Mutex<Recorder>>,
    mode: Consumer,
) {
    if mode == Consumer::Never {
        // hold the receiver, unpolled, until the director ends the run
        let _keep = events;
        std::future::pending::<()>().await;
        return;
    }
    let drop_at = match mode {
        Consumer::Drain | Consumer::StartAt(_) | Consumer::Never | Consumer::Ticking { .. } => None,
        Consumer::DropAt(ms) => Some(ms),
    };
    let t0 = tokio::time::Instant::now();
    if let Consumer::StartAt(ms) = mode {
        tokio::time::sleep_until(t0 + Duration::from_millis(ms)).await;
    }
    let (tick_ms, tick_until, tick_select) = match mode {
        Consumer::Ticking { period_ms, until_ms, form } => (period_ms.max(1), until_ms, form),
        _ => (0, 0, 0),
    };
    let mut next_tick = t0 + Duration::from_millis(tick_ms);
    loop {
        let next = match drop_at {
            None if tick_ms > 0 && tokio::time::Instant::now() < t0 + Duration::from_millis(tick_until) => {
                // wait for an event only until the next tick; an unfinished wait is dropped
                let got = match tick_select {
                    1 => tokio::select! {
                        e = events.next() => Some(e),
                        _ = tokio::time::sleep_until(next_tick) => None,
                    },
                    2 => {
                        let polled_once = tokio::select! {
                            biased;
                            e = events.next() => Some(e),
                            _ = std::future::ready(()) => None,
                        };
                        if polled_once.is_none() {
                            // nothing there: "other work" until the next tick
                            tokio::time::sleep_until(next_tick).await;
                        }
                        polled_once
                    }
                    _ => tokio::time::timeout_at(next_tick, events.next()).await.ok(),
                };
                match got {
                    Some(e) => e,
                    None => {
                        let now = tokio::time::Instant::now();
                        while next_tick <= now {
                            next_tick += Duration::from_millis(tick_ms);
                        }
                        continue;
                    }
                }
            }
            None => events.next().await,
            Some(ms) => {
                let deadline = t0 + Duration::from_millis(ms);
                match tokio::time::timeout_at(deadline, events.next()).await {
                    Ok(e) => e,
                    Err(_) => {
                        let mut w = world.lock().unwrap_or_else(|e| e.into_inner());
                        let seq = w.log(Ev::Director("event receiver dropped".into()));
                        rec.lock().unwrap_or_else(|e| e.into_inner()).receiver_dropped_seq = Some(seq);
                        return;
                    }
                }
            }
        };
        let r = match &next {
            Some(e) => event_rec(e),
            None => EventRec::StreamEnd,
        };
        let mut w = world.lock().unwrap_or_else(|e| e.into_inner());
        let desc = match &r {
            EventRec::Change(n) => format!("change:{}", n),
            EventRec::Closed(k) => format!("closed:{}", k),
            EventRec::StreamEnd => "end".to_string(),
        };
        let seq = w.log(Ev::Event(desc));
        let ms = w.now_ms();
        drop(w);
        rec.lock().unwrap_or_else(|e| e.into_inner()).events.push((seq, ms, r));
        if next.is_none() {
            return;
        }
    }
}

const QUIESCENCE: Duration = Duration::from_secs(60);
const HANG_LIMIT: Duration = Duration::from_secs(3600);

async fn direct(plan: Plan, world: Shared) -> RunOutput {
    let rec = Arc::new(Mutex::new(Recorder::default()));
    world.lock().unwrap_or_else(|e| e.into_inner()).start();
    let pump_handle = tokio::spawn(pump(world.clone()));
    let endpoint = ClientEndpoint {
        world: world.clone(),
    };

    // --- connect -----------------------------------------------------------------------------
    let connect_fut = async {
        match &plan.password {
            Some(p) if p.via_opt => Client::connect_with_password_opt(endpoint, Some(&p.password)).await,
            Some(p) => Client::connect_with_password(endpoint, &p.password).await,
            None if plan.connect_via_opt => Client::connect_with_password_opt(endpoint, None).await,
            None => Client::connect(endpoint)
                .await
                .map_err(ConnectWithPasswordError::ProtocolError),
        }
    };
    let connected = tokio::time::timeout(HANG_LIMIT, connect_fut).await;
    let c2s_len_at_connect_result = world.lock().unwrap_or_else(|e| e.into_inner()).c2s.len();
    let mut connect = ConnectOutcome::Hung;
    let mut handles: Vec<Client> = Vec::new();
    let mut consumer = None;
    let mut protocol_version = None;
    match connected {
        Err(_) => {}
        Ok(Err(ConnectWithPasswordError::IncorrectPassword)) => {
            connect = ConnectOutcome::IncorrectPassword
        }
        Ok(Err(ConnectWithPasswordError::ProtocolError(e))) => {
            connect = ConnectOutcome::Protocol(protocol_terminal(&e))
        }
        Ok(Ok((client, events))) => {
            connect = ConnectOutcome::Ok(client.protocol_version().to_string());
            protocol_version = Some(client.protocol_version().to_string());
            consumer = Some(tokio::spawn(consumer_task(
                events,
                world.clone(),
                rec.clone(),
                plan.consumer.clone(),
            )));
            handles.push(client);
        }
    }
    world
        .lock()
        .unwrap()
        .log(Ev::Director(format!("connect -> {:?}", connect)));

    // --- callers -----------------------------------------------------------------------------
    let mut callers_all_done = true;
    if let Some(main) = handles.first().cloned() {
        let mut tasks = Vec::new();
        for (i, script) in plan.callers.iter().enumerate() {
            let ctx = CallerCtx {
                idx: i,
                world: world.clone(),
                rec: rec.clone(),
            };
            tasks.push(tokio::spawn(caller_task(ctx, main.clone(), script.clone())));
        }
        drop(main);
        if !plan.keep_main_handle {
            handles.clear();
        }
        let deadline = tokio::time::Instant::now() + HANG_LIMIT;
        for t in tasks {
            let abort = t.abort_handle();
            match tokio::time::timeout_at(deadline, t).await {
                Ok(Ok(Some(c))) => handles.push(c),
                Ok(Ok(None)) => {}
                Ok(Err(_join_err)) => {
                    // the caller task panicked (recorded by the panic hook)
                }
                Err(_) => {
                    callers_all_done = false;
                    abort.abort();
                }
            }
        }
    }

    // --- quiescence epilogue -------------------------------------------------------------------
    // quiescence = 60 s after the last *planned* activity: callers are done, and every planned
    // change event and time-triggered fault lies in the past
    let last_planned = plan
        .changes
        .iter()
        .map(|c| c.at_ms)
        .chain(plan.faults.iter().filter_map(|f| match f.trigger {
            crate::session::plan::Trigger::AtTime(t) => Some(t),
            _ => None,
        }))
        .max()
        .unwrap_or(0);
    let now_ms = world.lock().unwrap_or_else(|e| e.into_inner()).now_ms();
    if last_planned >= now_ms {
        tokio::time::sleep(Duration::from_millis(last_planned - now_ms + 1)).await;
    }
    // ... and the transport has been silent for 60 s (a client that is still pushing a cancelled
    // request through a slow transport is not quiescent yet); capped so that a client that never
    // falls silent is still judged
    let quiet_deadline = tokio::time::Instant::now() + HANG_LIMIT;
    loop {
        let (now, last) = {
            let w = world.lock().unwrap_or_else(|e| e.into_inner());
            // a server that is still working on a request (possibly for minutes) is activity
            let last = if w.mpd.busy && !w.mpd.closed { w.now_ms() } else { w.last_io_ms };
            (w.now_ms(), last)
        };
        let quiet_at = last + QUIESCENCE.as_millis() as u64;
        if now >= quiet_at || tokio::time::Instant::now() >= quiet_deadline {
            break;
        }
        tokio::time::sleep(Duration::from_millis(quiet_at - now)).await;
    }
    // A client with traffic of its own (a keep-alive, a periodic refresh of idle) may be in the
    // middle of such an exchange at this very instant: give it a moment to settle back into idle
    // before "is the server idling?" is sampled. (A client that is idling already — the normal
    // case — passes straight through.)
    // The moment is five seconds on an ordinary link; on a slow one (seconds per direction) such
    // an exchange takes several round trips, so the allowance grows with the planned latencies.
    let rtt_ms = plan.net.s2c_latency_ms as u64
        + plan.net.c2s_latency_ms.iter().copied().max().unwrap_or(0) as u64;
    let settle_polls = (5_000 + 5 * rtt_ms) / 50;
    for _ in 0..settle_polls {
        let settled = {
            let w = world.lock().unwrap_or_else(|e| e.into_inner());
            (w.mpd.idle_waiting && w.s2c_read >= w.s2c.len()) || w.end.is_some() || w.mpd.closed
        };
        if settled {
            break;
        }
        tokio::time::sleep(Duration::from_millis(50)).await;
    }
    let (quiescence_seq, idle_at_quiescence, ended) = {
        let mut w = world.lock().unwrap_or_else(|e| e.into_inner());
        let seq = w.log(Ev::Director("quiescence".into()));
        (seq, w.mpd.idle_waiting, w.end.is_some())
    };
    let closed_flags: Vec<bool> = handles.iter().map(|h| h.is_connection_closed()).collect();
    let mut probe_change_seq = None;
    let mut probe_request = None;
    if !handles.is_empty() {
        if !ended {
            // liveness probe: one more change event must come out as an event
            let mut w = world.lock().unwrap_or_else(|e| e.into_inner());
            w.inject_change(vec!["simprobe".to_string()]);
            probe_change_seq = Some(w.seq);
            drop(w);
            tokio::time::sleep(Duration::from_secs(5)).await;
        }
        if plan.probe_request {
            // a later request must resolve (with its reply on a live connection, with an error
            // on a dead one)
            let ctx = CallerCtx {
                idx: usize::MAX,
                world: world.clone(),
                rec: rec.clone(),
            };
            let op = Op::Request { id: PROBE_ID };
            let slot = ctx.invoke(usize::MAX, 0, &op, None);
            let fut = op_future(&handles[0], &op);
            let res = match tokio::time::timeout(QUIESCENCE, fut).await {
                Ok(r) => r,
                Err(_) => OpResult::Hung,
            };
            ctx.ret(slot, usize::MAX, res);
            let mut r = rec.lock().unwrap_or_else(|e| e.into_inner());
            probe_request = Some(r.ops.remove(slot));
            drop(r);
            tokio::time::sleep(Duration::from_secs(5)).await;
        }
    }
    let closed_flags_after_probe: Vec<bool> =
        handles.iter().map(|h| h.is_connection_closed()).collect();
    let handles_dropped_seq = {
        let mut w = world.lock().unwrap_or_else(|e| e.into_inner());
        w.log(Ev::Director("dropping all handles".into()))
    };
    drop(handles);
    tokio::time::sleep(QUIESCENCE).await;
    if let Some(c) = consumer {
        if !c.is_finished() {
            c.abort();
        }
        let _ = c.await;
    }
    {
        let mut w = world.lock().unwrap_or_else(|e| e.into_inner());
        w.shutdown = true;
        w.notify.notify_one();
    }
    let _ = pump_handle.await;

    let w = world.lock().unwrap_or_else(|e| e.into_inner());
    let r = rec.lock().unwrap_or_else(|e| e.into_inner());
    let sim_ms = w.now_ms();
    let _ = (ended, closed_flags);
    let closed = closed_flags_after_probe;
    RunOutput {
        plan_fault_free: plan.fault_free(),
        digest: digest_log(&w.log),
        signature: signature_log(&w.log),
        log: w.log.clone(),
        ops: r.ops.clone(),
        events: r.events.clone(),
        receiver_dropped_seq: r.receiver_dropped_seq,
        connect,
        units: w.mpd.units.clone(),
        responses: w.responses.clone(),
        server_lines: w.mpd.lines_seen.clone(),
        server_violations: w.mpd.violations.clone(),
        judge: w.judge.clone(),
        s2c: w.s2c.clone(),
        s2c_read: w.s2c_read,
        c2s: w.c2s.clone(),
        greeting_end: w.greeting_end,
        end: w.end.clone(),
        client_observed_end: w.client_observed_end,
        observed_kind: w.observed_kind.clone(),
        endpoint_dropped: w.endpoint_dropped,
        faults_fired: w.faults_fired.clone(),
        garbage_at: w.garbage_at,
        panics: Vec::new(),
        closed_flags: closed,
        idle_at_quiescence,
        quiescence_seq,
        probe_change_seq,
        probe_request,
        handles_dropped_seq,
        c2s_len_at_connect_result,
        callers_all_done,
        probes: w.probes.clone(),
        sim_ms,
        noidle_ignored: w.mpd.noidle_ignored,
        idle_immediate: w.mpd.idle_immediate,
        protocol_version,
    }
}

pub const PROBE_ID: u64 = 999_999;

/// Execute a plan in a fresh paused-clock, seeded, current-thread runtime.
pub fn execute(plan: &Plan) -> RunOutput {
    let _ = panics::take_all();
    let mut seed_bytes = [0u8; 16];
    seed_bytes[..8].copy_from_slice(&plan.tokio_seed.to_le_bytes());
    seed_bytes[8..].copy_from_slice(&plan.tokio_seed.rotate_left(17).to_le_bytes());
    let rt = tokio::runtime::Builder::new_current_thread()
        .enable_time()
        .start_paused(true)
        .rng_seed(tokio::runtime::RngSeed::from_bytes(&seed_bytes))
        .build()
        .expect("runtime");
    let plan2 = plan.clone();
    let res = std::panic::catch_unwind(std::panic::AssertUnwindSafe(|| {
        rt.block_on(async move {
            let world: Shared = Arc::new(Mutex::new(World::new(&plan2)));
            direct(plan2, world).await
        })
    }));
    let _ = std::panic::catch_unwind(std::panic::AssertUnwindSafe(move || drop(rt)));
    let mut out = match res {
        Ok(o) => o,
        Err(_) => {
            // the run was aborted by a panic that reached the director (event budget exceeded)
            let mut o = RunOutput::default();
            o.plan_fault_free = plan.fault_free();
            o
        }
    };
    out.panics = panics::take_all();
    if out.log.is_empty() && out.panics.is_empty() {
        out.panics.push("run aborted".into());
    }
    out
}

/// Which responses did an `RespKind::Unit` answer? Helper for oracles.
pub fn unit_of(r: &RespRecord) -> Option<usize> {
    match r.kind {
        RespKind::Unit(i) => Some(i),
        _ => None,
    }
}
