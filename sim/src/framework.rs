//! Batch runner shared by all checks: seeded generation by run index, parallel workers, reach
//! counters, distinct-signature counting, determinism re-runs, violation selection + shrinking,
//! replay files, known findings and evidence files.

use std::collections::{BTreeMap, HashSet};
use std::path::{Path, PathBuf};
use std::sync::atomic::{AtomicBool, AtomicU64, Ordering};
use std::sync::Mutex;
use std::time::{Duration, Instant};

use serde::de::DeserializeOwned;
use serde::{Deserialize, Serialize};
use serde_json::{json, Value};

use crate::prng;

pub const DEFAULT_SEED: u64 = 0x6d7064;

#[derive(Clone, Copy, Debug, PartialEq, Eq)]
pub enum Tier {
    Quick,
    Thorough,
}

impl Tier {
    pub fn as_str(&self) -> &'static str {
        match self {
            Tier::Quick => "quick",
            Tier::Thorough => "thorough",
        }
    }
}

#[derive(Clone, Debug, PartialEq, Eq, Serialize, Deserialize)]
pub struct Violation {
    pub property: String,
    /// which oracle clause failed (stable identifier; shrinking preserves it)
    pub clause: String,
    pub detail: String,
    /// machine-readable facts about the failing history, used by known-finding signatures
    #[serde(default)]
    pub tags: Vec<String>,
}

impl Violation {
    pub fn new(property: &str, clause: &str, detail: impl Into<String>) -> Violation {
        Violation {
            property: property.to_string(),
            clause: clause.to_string(),
            detail: detail.into(),
            tags: Vec::new(),
        }
    }
    pub fn tag(mut self, t: impl Into<String>) -> Violation {
        self.tags.push(t.into());
        self
    }
}

/// Result of evaluating one case.
#[derive(Clone, Debug, Default)]
pub struct Eval {
    pub violation: Option<Violation>,
    /// identity of the execution (hash of the event log / outcome)
    pub digest: u64,
    /// order-only / class-only projection used to count distinct cases
    pub signature: u64,
    /// did the run exercise the property's precondition (rule stated per check)?
    pub nontrivial: bool,
    /// simulated milliseconds covered (session engine)
    pub sim_ms: u64,
    pub events: u64,
    /// optional second measure of distinctness (state tuples)
    pub states: Vec<u64>,
}

pub struct Counters(pub BTreeMap<String, u64>);

impl Counters {
    pub fn bump(&mut self, k: &str) {
        self.add(k, 1);
    }
    pub fn add(&mut self, k: &str, n: u64) {
        if n == 0 {
            self.0.entry(k.to_string()).or_insert(0);
            return;
        }
        *self.0.entry(k.to_string()).or_insert(0) += n;
    }
}

pub struct WorkerCtx<C> {
    pub counters: Counters,
    sigs: HashSet<u64>,
    states: HashSet<u64>,
    sigs_saturated: bool,
    pub evals: u64,
    pub nontrivial: u64,
    pub sim_ms: u64,
    pub events: u64,
    violations: Vec<(u64, C, Violation)>,
    known_hits: BTreeMap<String, u64>,
    samples: Vec<Value>,
    digests: Vec<(u64, u32, u64)>,
    cur_index: u64,
    cur_sub: u32,
    digest_every: u64,
    /// locate mode: every case is written here before it is evaluated
    locate: Option<PathBuf>,
    /// heartbeat slot in the supervisor's file
    slot: Option<(std::fs::File, u64)>,
    /// kernel thread id of this worker (the supervisor reads its CPU time from /proc)
    tid: u64,
    last_hb: Instant,
}

const SIG_CAP: usize = 3_000_000;

const SLOT_WIDTH: u64 = 64;

impl<C: Clone + Serialize> WorkerCtx<C> {
    /// Must be called before a case is evaluated. In locate mode (after a crash or stall of the
    /// batch) the case is persisted first, so that the supervisor knows what was running.
    pub fn about_to_eval(&mut self, case: &C) {
        if let Some(path) = &self.locate {
            let tmp = path.with_extension("tmp");
            let v = json!({ "index": self.cur_index, "sub": self.cur_sub, "case": case });
            if std::fs::write(&tmp, serde_json::to_vec(&v).unwrap_or_default()).is_ok() {
                let _ = std::fs::rename(&tmp, path);
            }
        }
    }
}

impl<C: Clone> WorkerCtx<C> {
    fn new(digest_every: u64) -> Self {
        WorkerCtx {
            counters: Counters(BTreeMap::new()),
            sigs: HashSet::new(),
            states: HashSet::new(),
            sigs_saturated: false,
            evals: 0,
            nontrivial: 0,
            sim_ms: 0,
            events: 0,
            violations: Vec::new(),
            known_hits: BTreeMap::new(),
            samples: Vec::new(),
            digests: Vec::new(),
            cur_index: 0,
            cur_sub: 0,
            digest_every,
            locate: None,
            slot: None,
            tid: current_tid(),
            last_hb: Instant::now(),
        }
    }

    fn with_slot(mut self, worker: u64) -> Self {
        if let Some(path) = std::env::var_os("MPDSIM_SLOTS") {
            if let Ok(f) = std::fs::OpenOptions::new().write(true).create(true).open(path) {
                self.slot = Some((f, worker * SLOT_WIDTH));
            }
        }
        self
    }

    /// Progress inside a run index: at most every 200 ms the slot is rewritten with the number of
    /// evaluations finished, so that the supervisor measures stalls per evaluation.
    fn progress(&mut self) {
        if self.slot.is_some() && self.last_hb.elapsed() > Duration::from_millis(200) {
            self.last_hb = Instant::now();
            self.heartbeat(&format!("run {} {} t{}", self.cur_index, self.cur_sub, self.tid));
        }
    }

    /// Tell the supervisor which run index this worker is about to process.
    fn heartbeat(&self, text: &str) {
        use std::os::unix::fs::FileExt;
        if let Some((f, off)) = &self.slot {
            let line = format!("{:<width$}\n", text, width = SLOT_WIDTH as usize - 1);
            let _ = f.write_at(line.as_bytes(), *off);
        }
    }

    /// Record the evaluation of `case`.
    pub fn record(&mut self, case: &C, ev: Eval, known: &KnownFindings) {
        self.evals += 1;
        self.sim_ms += ev.sim_ms;
        self.events += ev.events;
        if ev.nontrivial {
            self.nontrivial += 1;
            if self.sigs.len() < SIG_CAP {
                self.sigs.insert(ev.signature);
            } else {
                self.sigs_saturated = true;
            }
        }
        if self.states.len() < SIG_CAP {
            for s in &ev.states {
                self.states.insert(*s);
            }
        }
        if self.digest_every > 0 && self.cur_index % self.digest_every == 0 {
            self.digests.push((self.cur_index, self.cur_sub, ev.digest));
        }
        self.cur_sub += 1;
        self.progress();
        if let Some(v) = ev.violation {
            if let Some(k) = known.matching(&v) {
                *self.known_hits.entry(k).or_insert(0) += 1;
            } else if self.violations.len() < 16 {
                self.violations.push((self.cur_index, case.clone(), v));
            }
        }
    }

    pub fn want_sample(&self) -> bool {
        self.samples.len() < 3
    }

    pub fn sample(&mut self, v: Value) {
        if self.samples.len() < 3 {
            self.samples.push(v);
        }
    }

    pub fn has_violation(&self) -> bool {
        !self.violations.is_empty()
    }
}

/// A check = generator by index + evaluator + shrinker.
pub trait Check: Sync {
    type Case: Serialize + DeserializeOwned + Clone + Send + 'static;

    fn id(&self) -> &'static str;
    fn level(&self) -> &'static str;
    /// (max number of indexes, wall-clock budget)
    fn budget(&self, tier: Tier) -> (u64, Duration);
    /// Generate and evaluate everything that belongs to run `index`.
    fn run_index(&self, seed: u64, index: u64, tier: Tier, ctx: &mut WorkerCtx<Self::Case>, known: &KnownFindings);
    fn eval(&self, case: &Self::Case) -> Eval;
    /// Simpler variants of a failing case, most aggressive first.
    fn shrink(&self, case: &Self::Case) -> Vec<Self::Case>;
    /// Human-readable trace of a case for the replay file.
    fn trace(&self, case: &Self::Case) -> Vec<String>;
    fn rule(&self) -> String;
    fn assumptions(&self) -> Vec<String>;
    fn components(&self) -> (Vec<String>, Vec<String>);
    /// probes that must not stay at zero (warning only)
    fn probes(&self) -> Vec<&'static str> {
        Vec::new()
    }
    fn fault_kinds(&self) -> Vec<&'static str> {
        Vec::new()
    }
    fn exhaustive(&self, _tier: Tier) -> bool {
        false
    }
}

// ---------------------------------------------------------------------------------------------
// Known findings

#[derive(Clone, Debug, Serialize, Deserialize)]
pub struct FindingEntry {
    pub id: String,
    pub property: String,
    /// "known" or "fixed"
    pub status: String,
    #[serde(default)]
    pub commit: Option<String>,
    pub what: String,
    /// signature: oracle clause …
    #[serde(default)]
    pub clause: Option<String>,
    /// … and tags that must all be present on the violation
    #[serde(default)]
    pub require_tags: Vec<String>,
    #[serde(default)]
    pub forbid_tags: Vec<String>,
}

#[derive(Clone, Debug, Default, Serialize, Deserialize)]
pub struct KnownFindings {
    pub findings: Vec<FindingEntry>,
}

impl KnownFindings {
    pub fn load(path: &Path) -> KnownFindings {
        match std::fs::read_to_string(path) {
            Ok(s) => match serde_json::from_str(&s) {
                Ok(k) => k,
                Err(e) => {
                    eprintln!("harness error: cannot parse {}: {}", path.display(), e);
                    std::process::exit(2);
                }
            },
            Err(_) => KnownFindings::default(),
        }
    }

    /// Id of the `known` entry whose signature matches, if any. `fixed` entries suppress nothing.
    pub fn matching(&self, v: &Violation) -> Option<String> {
        for f in &self.findings {
            if f.status != "known" || f.property != v.property {
                continue;
            }
            if let Some(c) = &f.clause {
                if *c != v.clause {
                    continue;
                }
            }
            if f.require_tags.iter().all(|t| v.tags.contains(t))
                && !f.forbid_tags.iter().any(|t| v.tags.contains(t))
            {
                return Some(f.id.clone());
            }
        }
        None
    }

    pub fn describe(&self, id: &str) -> String {
        self.findings
            .iter()
            .find(|f| f.id == id)
            .map(|f| f.what.clone())
            .unwrap_or_default()
    }
}

// ---------------------------------------------------------------------------------------------
// Replay files

#[derive(Serialize, Deserialize)]
pub struct ReplayFile {
    pub property: String,
    pub seed: u64,
    pub index: u64,
    pub violation: Violation,
    pub digest: u64,
    pub shrink_steps: u64,
    pub trace: Vec<String>,
    pub case: Value,
}

pub fn verif_root() -> PathBuf {
    if let Some(p) = std::env::var_os("VERIF_ROOT") {
        return PathBuf::from(p);
    }
    // the binary lives in <root>/sim/target/release/
    let exe = std::env::current_exe().unwrap_or_default();
    for anc in exe.ancestors() {
        if anc.join("MANIFEST.json").exists() || anc.join("properties.jsonl").exists() {
            return anc.to_path_buf();
        }
    }
    PathBuf::from("/verif")
}

pub struct Options {
    pub tier: Tier,
    pub seed: u64,
    pub workers: usize,
    pub budget_override: Option<Duration>,
    pub max_override: Option<u64>,
    pub write_evidence: bool,
}

impl Options {
    pub fn from_env(tier: Tier) -> Options {
        let seed = std::env::var("VERIF_SEED")
            .ok()
            .and_then(|s| parse_seed(&s))
            .unwrap_or(DEFAULT_SEED);
        let workers = std::env::var("VERIF_WORKERS")
            .ok()
            .and_then(|s| s.parse().ok())
            .unwrap_or_else(|| {
                std::thread::available_parallelism()
                    .map(|n| n.get())
                    .unwrap_or(4)
                    .min(16)
            });
        let budget_override = std::env::var("VERIF_BUDGET_S")
            .ok()
            .and_then(|s| s.parse::<f64>().ok())
            .map(Duration::from_secs_f64);
        let max_override = std::env::var("VERIF_MAX_RUNS")
            .ok()
            .and_then(|s| s.parse().ok());
        Options {
            tier,
            seed,
            workers,
            budget_override,
            max_override,
            write_evidence: true,
        }
    }
}

pub fn parse_seed(s: &str) -> Option<u64> {
    let s = s.trim();
    if let Some(h) = s.strip_prefix("0x") {
        u64::from_str_radix(h, 16).ok()
    } else if let Ok(v) = s.parse::<u64>() {
        Some(v)
    } else {
        s.parse::<i64>().ok().map(|v| v as u64)
    }
}

pub struct BatchSummary {
    pub evals: u64,
    pub digests: Vec<(u64, u32, u64)>,
}

/// Run a whole check. Returns the process exit code.
pub fn run_check<K: Check>(check: &K, opts: &Options) -> i32 {
    let started = Instant::now();
    let root = verif_root();
    let known = KnownFindings::load(&root.join("known_findings.json"));
    let (mut max_index, mut budget) = check.budget(opts.tier);
    if let Some(b) = opts.budget_override {
        budget = b;
    }
    if let Some(m) = opts.max_override {
        max_index = m;
    }
    let deadline = started + budget;
    let next = AtomicU64::new(0);
    let stop_after = AtomicU64::new(u64::MAX);
    let timed_out = AtomicBool::new(false);
    let digest_every = match opts.tier {
        Tier::Quick => 97,
        Tier::Thorough => 151,
    };
    let results: Mutex<Vec<WorkerCtx<K::Case>>> = Mutex::new(Vec::new());
    println!(
        "check {} tier={} seed={} workers={} max_runs={} budget_s={}",
        check.id(),
        opts.tier.as_str(),
        opts.seed,
        opts.workers,
        max_index,
        budget.as_secs()
    );

    let worker_ids = AtomicU64::new(0);
    std::thread::scope(|s| {
        for _ in 0..opts.workers {
            s.spawn(|| {
                let mut ctx: WorkerCtx<K::Case> =
                    WorkerCtx::new(digest_every).with_slot(worker_ids.fetch_add(1, Ordering::SeqCst));
                loop {
                    let i = next.fetch_add(1, Ordering::SeqCst);
                    if i >= max_index || i > stop_after.load(Ordering::SeqCst) {
                        break;
                    }
                    if Instant::now() > deadline {
                        timed_out.store(true, Ordering::SeqCst);
                        break;
                    }
                    ctx.cur_index = i;
                    ctx.cur_sub = 0;
                    ctx.last_hb = Instant::now();
                    ctx.heartbeat(&format!("run {} 0 t{}", i, ctx.tid));
                    let had = ctx.violations.len();
                    check.run_index(opts.seed, i, opts.tier, &mut ctx, &known);
                    if ctx.violations.len() > had {
                        stop_after.fetch_min(i, Ordering::SeqCst);
                    }
                }
                ctx.heartbeat("done");
                ctx.slot = None;
                results.lock().unwrap().push(ctx);
            });
        }
    });

    let mut ctxs = results.into_inner().unwrap();
    let runs_done = next.load(Ordering::SeqCst).min(max_index);

    // Determinism re-run: sampled indexes are evaluated again (different thread assignment) and
    // the digests must agree.
    let mut first_digests: Vec<(u64, u32, u64)> =
        ctxs.iter().flat_map(|c| c.digests.iter().copied()).collect();
    first_digests.sort_unstable();
    let det_cap = match opts.tier {
        Tier::Quick => 300,
        Tier::Thorough => 20_000,
    };
    let mut sample_indexes: Vec<u64> = first_digests.iter().map(|d| d.0).collect();
    sample_indexes.dedup();
    sample_indexes.truncate(det_cap);
    let cutoff = sample_indexes.last().copied();
    let det_next = AtomicU64::new(0);
    let det_results: Mutex<Vec<(u64, u32, u64)>> = Mutex::new(Vec::new());
    std::thread::scope(|s| {
        for _ in 0..opts.workers.max(2) - 1 {
            s.spawn(|| {
                let mut ctx: WorkerCtx<K::Case> =
                    WorkerCtx::new(1).with_slot(worker_ids.fetch_add(1, Ordering::SeqCst) % 64);
                loop {
                    let j = det_next.fetch_add(1, Ordering::SeqCst) as usize;
                    if j >= sample_indexes.len() {
                        break;
                    }
                    // walk the sample backwards so that thread assignment differs from phase 1
                    let i = sample_indexes[sample_indexes.len() - 1 - j];
                    ctx.cur_index = i;
                    ctx.cur_sub = 0;
                    ctx.last_hb = Instant::now();
                    ctx.heartbeat(&format!("run {} 0 t{}", i, ctx.tid));
                    check.run_index(opts.seed, i, opts.tier, &mut ctx, &known);
                }
                ctx.heartbeat("done");
                det_results.lock().unwrap().extend(ctx.digests);
            });
        }
    });
    let mut second = det_results.into_inner().unwrap();
    second.sort_unstable();
    let first_cmp: Vec<_> = first_digests
        .iter()
        .copied()
        .filter(|d| Some(d.0) <= cutoff)
        .collect();
    let det_checked = second.len();
    let mut det_mismatch = false;
    if !sample_indexes.is_empty() && first_cmp != second {
        let diff = first_cmp
            .iter()
            .zip(second.iter())
            .find(|(a, b)| a != b)
            .map(|(a, b)| format!("{:?} vs {:?}", a, b))
            .unwrap_or_else(|| format!("lengths {} vs {}", first_cmp.len(), second.len()));
        // Not fatal: on the unchanged tree the self-test (tools/selftest-determinism.sh) shows
        // that execution is a function of the plan, so a mismatch here means the code under
        // test draws on something outside the simulator's seams (a randomly keyed hasher, an
        // address, a wall clock). That is not a violation of any property; it only means that a
        // violation found in this batch may not replay. It is reported and recorded.
        eprintln!(
            "NONDETERMINISM check={} re-executing sampled run indexes gave a different event log ({}): the code under test is not a function of the plan and the simulator's seeds; findings of this batch may not replay",
            check.id(),
            diff
        );
        det_mismatch = true;
    }

    // Aggregate
    let mut counters: BTreeMap<String, u64> = BTreeMap::new();
    let mut sigs: HashSet<u64> = HashSet::new();
    let mut states: HashSet<u64> = HashSet::new();
    let mut evals = 0;
    let mut nontrivial = 0;
    let mut sim_ms = 0;
    let mut events = 0;
    let mut saturated = false;
    let mut known_hits: BTreeMap<String, u64> = BTreeMap::new();
    let mut samples: Vec<Value> = Vec::new();
    let mut violations: Vec<(u64, K::Case, Violation)> = Vec::new();
    for c in ctxs.drain(..) {
        for (k, v) in c.counters.0 {
            *counters.entry(k).or_insert(0) += v;
        }
        sigs.extend(c.sigs);
        states.extend(c.states);
        evals += c.evals;
        nontrivial += c.nontrivial;
        sim_ms += c.sim_ms;
        events += c.events;
        saturated |= c.sigs_saturated;
        for (k, v) in c.known_hits {
            *known_hits.entry(k).or_insert(0) += v;
        }
        samples.extend(c.samples);
        violations.extend(c.violations);
    }
    samples.truncate(4);
    violations.sort_by_key(|v| v.0);

    // internal consistency counters of the harness (e.g. two independent reference components
    // disagreeing with each other) are harness errors, never violations
    for (k, n) in &counters {
        if k.starts_with("HARNESS_ERROR.") && *n > 0 {
            eprintln!("HARNESS-ERROR {} occurred {} times in check {}", k, n, check.id());
            return 2;
        }
    }
    for (k, n) in &known_hits {
        println!(
            "KNOWN-FINDING: property={} {} [{} occurrences this run, entry {}]",
            check.id(),
            known.describe(k),
            n,
            k
        );
    }
    for p in check.probes() {
        if counters.get(p).copied().unwrap_or(0) == 0 {
            println!("WARNING probe={} stayed at zero in this run", p);
        }
    }

    let mut exit = 0;
    let mut violation_count = 0;
    if let Some((index, case, v)) = violations.into_iter().next() {
        violation_count = 1;
        let dir = root.join("replays");
        let _ = std::fs::create_dir_all(&dir);
        let path = dir.join(format!("{}-{}-{}.json", check.id(), opts.seed, index));
        let write_replay = |case: &K::Case, v: &Violation, steps: u64| -> bool {
            let ev = check.eval(case);
            let rf = ReplayFile {
                property: check.id().to_string(),
                seed: opts.seed,
                index,
                violation: v.clone(),
                digest: ev.digest,
                shrink_steps: steps,
                trace: check.trace(case),
                case: serde_json::to_value(case).unwrap(),
            };
            std::fs::write(&path, serde_json::to_string_pretty(&rf).unwrap()).is_ok()
        };
        // persist the violation as found, and tell the supervisor where it is, before minimising:
        // a simplified variant may well kill the process
        if !write_replay(&case, &v, 0) {
            eprintln!("HARNESS-ERROR cannot write replay file");
            return 2;
        }
        let slots_env = std::env::var_os("MPDSIM_SLOTS").map(PathBuf::from);
        if let Some(sl) = &slots_env {
            let _ = std::fs::write(sl.with_extension("found"), path.display().to_string());
        }
        let hb: WorkerCtx<K::Case> = WorkerCtx::new(0).with_slot(80);
        let (case, v, steps) = shrink_case(check, case, v, &known, &hb);
        hb.heartbeat("done");
        if !write_replay(&case, &v, steps) {
            eprintln!("HARNESS-ERROR cannot write replay file");
            return 2;
        }
        if let Some(sl) = &slots_env {
            let _ = std::fs::remove_file(sl.with_extension("found"));
        }
        // the replay must reproduce in a fresh process
        let exe = std::env::current_exe().unwrap();
        let st = std::process::Command::new(exe)
            .arg("replay")
            .arg(&path)
            .arg("--quiet")
            .arg("--strict")
            .status();
        match st {
            Ok(s) if s.code() == Some(1) => {}
            other => {
                eprintln!(
                    "HARNESS-ERROR replay of {} did not reproduce the violation ({:?})",
                    path.display(),
                    other
                );
                return 2;
            }
        }
        println!("violation clause={} detail={}", v.clause, v.detail);
        println!(
            "VIOLATION property={} replay={}",
            check.id(),
            path.display()
        );
        exit = 1;
    }

    let wall = started.elapsed().as_secs_f64();
    if opts.write_evidence {
        let (real, stub) = check.components();
        let mut fault_counts = serde_json::Map::new();
        for f in check.fault_kinds() {
            fault_counts.insert(
                f.to_string(),
                json!(counters.get(&format!("fault_fired.{}", f)).copied().unwrap_or(0)),
            );
        }
        let mut probes = serde_json::Map::new();
        for p in check.probes() {
            probes.insert(p.to_string(), json!(counters.get(p).copied().unwrap_or(0)));
        }
        if samples.is_empty() {
            samples.push(json!("no sample recorded"));
        }
        let ev = json!({
            "property_id": check.id(),
            "tier": opts.tier.as_str(),
            "seed": opts.seed,
            "level": check.level(),
            "coverage": {
                "evaluations": evals,
                "distinct_nontrivial": sigs.len(),
                "distinct_saturated": saturated,
                "nontrivial_evaluations": nontrivial,
                "rule": check.rule(),
                "samples": samples,
                "exhaustive": check.exhaustive(opts.tier),
                "run_indexes": runs_done,
                "stopped_by_time_budget": timed_out.load(Ordering::SeqCst),
                "runs_per_hour": if wall > 0.0 { (evals as f64 / wall * 3600.0) as u64 } else { 0 },
                "seeds_per_hour": if wall > 0.0 { (runs_done as f64 / wall * 3600.0) as u64 } else { 0 },
                "simulated_seconds": sim_ms / 1000,
                "events": events,
                "distinct_state_tuples": states.len(),
                "faults_fired": fault_counts,
                "probes": probes,
                "counters": counters,
                "determinism_rerun_evaluations": det_checked,
                "determinism_rerun_mismatch": det_mismatch,
                "known_finding_hits": known_hits,
                "real_components": real,
                "stub_components": stub,
                "workers": opts.workers,
            },
            "assumptions": check.assumptions(),
            "wall_s": wall,
            "violations": violation_count,
        });
        let dir = root.join("evidence");
        let _ = std::fs::create_dir_all(&dir);
        let path = dir.join(format!("{}.json", check.id()));
        if let Err(e) = std::fs::write(&path, serde_json::to_string_pretty(&ev).unwrap()) {
            eprintln!("HARNESS-ERROR cannot write evidence file: {}", e);
            return 2;
        }
    }
    println!(
        "done {}: evaluations={} distinct_nontrivial={} wall_s={:.1} exit={}",
        check.id(),
        evals,
        sigs.len(),
        wall,
        exit
    );
    exit
}

/// `mpdsim locate`: re-run one run index, persisting every case before it is evaluated.
pub fn locate<K: Check>(check: &K, seed: u64, index: u64, tier: Tier, case_file: &Path) -> i32 {
    let known = KnownFindings::default();
    let mut ctx: WorkerCtx<K::Case> = WorkerCtx::new(0);
    ctx.locate = Some(case_file.to_path_buf());
    ctx.cur_index = index;
    ctx.cur_sub = 0;
    check.run_index(seed, index, tier, &mut ctx, &known);
    0
}

fn stall_limit() -> Duration {
    std::env::var("VERIF_STALL_S")
        .ok()
        .and_then(|s| s.parse::<f64>().ok())
        .map(Duration::from_secs_f64)
        .unwrap_or(Duration::from_secs(120))
}

enum ChildEnd {
    Exit(i32),
    /// killed by a signal / aborted / panicked outside a run (exit code other than 0, 1, 2)
    Crashed(String),
    /// the supervisor killed it: this worker's run index made no progress for too long
    Stalled(Vec<u64>),
}

fn read_slots(path: &Path) -> Vec<String> {
    let Ok(text) = std::fs::read_to_string(path) else {
        return Vec::new();
    };
    text.lines().map(|l| l.trim().to_string()).collect()
}

fn slot_index(text: &str) -> Option<u64> {
    text.strip_prefix("run ")
        .and_then(|n| n.split_whitespace().next())
        .and_then(|n| n.parse().ok())
}

fn slot_tid(text: &str) -> Option<u64> {
    text.split_whitespace()
        .find_map(|w| w.strip_prefix('t').and_then(|n| n.parse().ok()))
}

fn current_tid() -> u64 {
    std::fs::read_link("/proc/thread-self")
        .ok()
        .and_then(|p| p.file_name().and_then(|n| n.to_str()).and_then(|n| n.parse().ok()))
        .unwrap_or(0)
}

/// CPU seconds (user + system) a process or one of its threads has consumed, from /proc.
fn cpu_seconds(pid: u32, tid: Option<u64>) -> Option<f64> {
    let path = match tid {
        Some(t) => format!("/proc/{}/task/{}/stat", pid, t),
        None => format!("/proc/{}/stat", pid),
    };
    let text = std::fs::read_to_string(path).ok()?;
    // fields after the parenthesised command name; utime and stime are the 14th and 15th overall
    let rest = &text[text.rfind(')')? + 1..];
    let f: Vec<&str> = rest.split_whitespace().collect();
    let utime: f64 = f.get(11)?.parse().ok()?;
    let stime: f64 = f.get(12)?.parse().ok()?;
    Some((utime + stime) / 100.0)
}

/// What the supervisor watches to see that the child is getting somewhere.
enum Progress<'a> {
    /// the batch: one heartbeat slot per worker thread
    Slots(&'a Path),
    /// locate mode: the file the case about to be evaluated is written to
    CaseFile(&'a Path),
    /// a single case (replay)
    Whole,
}

/// A unit of work that has not finished after `limit` is a stall only if the machine really gave
/// it the time: it must have burnt at least half the limit in CPU time (a spin), or next to none
/// in a whole window (parked for good: a lost wake-up, a deadlock). A run that is merely slow
/// because the machine is oversubscribed — it uses some CPU, but little — gets further windows.
struct StallClock {
    since_tick: u64,
    cpu_at_mark: Option<f64>,
    cpu_accumulated: f64,
}

impl StallClock {
    fn new(tick: u64, cpu: Option<f64>) -> Self {
        StallClock {
            since_tick: tick,
            cpu_at_mark: cpu,
            cpu_accumulated: 0.0,
        }
    }

    /// Called when a window has elapsed without progress. `true`: stalled.
    fn window_elapsed(&mut self, tick: u64, cpu_now: Option<f64>, limit_s: f64) -> bool {
        let (Some(a), Some(b)) = (self.cpu_at_mark, cpu_now) else {
            return true; // no CPU accounting available: the plain tick limit decides
        };
        let used = (b - a).max(0.0);
        self.cpu_accumulated += used;
        if used < 0.02 * limit_s || self.cpu_accumulated >= 0.5 * limit_s {
            return true;
        }
        self.since_tick = tick;
        self.cpu_at_mark = cpu_now;
        false
    }
}

fn wait_supervised(child: &mut std::process::Child, progress: Progress<'_>, limit: Duration) -> ChildEnd {
    use std::os::unix::fs::MetadataExt;
    use std::os::unix::process::ExitStatusExt;
    // Stalls are measured in the supervisor's own polling ticks (100 ms each), not in wall-clock
    // time: if the whole machine is paused (VM snapshot, suspend) both processes stop together and
    // no ticks accumulate, whereas a clock-based limit would see a two-minute "stall".
    let limit_ticks = (limit.as_millis() / 100).max(10) as u64;
    let limit_s = limit.as_secs_f64();
    let pid = child.id();
    let mut last: Vec<(String, StallClock)> = Vec::new();
    let mut whole = StallClock::new(0, cpu_seconds(pid, None));
    let mut file_key: Option<(u64, i64, i64, u64)> = None;
    let mut tick = 0u64;
    loop {
        match child.try_wait() {
            Ok(Some(st)) => {
                return match st.code() {
                    Some(c @ (0 | 1 | 2)) => ChildEnd::Exit(c),
                    Some(c) => ChildEnd::Crashed(format!("exit code {}", c)),
                    None => ChildEnd::Crashed(format!("signal {}", st.signal().unwrap_or(0))),
                };
            }
            Ok(None) => {}
            Err(e) => return ChildEnd::Crashed(format!("wait failed: {}", e)),
        }
        std::thread::sleep(Duration::from_millis(100));
        tick += 1;
        match &progress {
            Progress::Slots(p) => {
                let cur = read_slots(p);
                while last.len() < cur.len() {
                    last.push((String::new(), StallClock::new(tick, None)));
                }
                let mut stalled = Vec::new();
                let mut any_stalled = false;
                for (i, c) in cur.iter().enumerate() {
                    let tid = slot_tid(c);
                    if last[i].0 != *c {
                        last[i] = (c.clone(), StallClock::new(tick, cpu_seconds(pid, tid)));
                    } else if !c.is_empty()
                        && c != "done"
                        && tick - last[i].1.since_tick > limit_ticks
                        && last[i].1.window_elapsed(tick, cpu_seconds(pid, tid), limit_s)
                    {
                        any_stalled = true;
                        if let Some(idx) = slot_index(c) {
                            stalled.push(idx);
                        }
                    }
                }
                if any_stalled {
                    let _ = child.kill();
                    let _ = child.wait();
                    return ChildEnd::Stalled(stalled);
                }
            }
            Progress::CaseFile(_) | Progress::Whole => {
                if let Progress::CaseFile(p) = &progress {
                    // every case is written (tmp + rename) before it is evaluated
                    let key = std::fs::metadata(p)
                        .ok()
                        .map(|m| (m.ino(), m.mtime(), m.mtime_nsec(), m.len()));
                    if key != file_key {
                        file_key = key;
                        whole = StallClock::new(tick, cpu_seconds(pid, None));
                    }
                }
                if tick - whole.since_tick > limit_ticks
                    && whole.window_elapsed(tick, cpu_seconds(pid, None), limit_s)
                {
                    let _ = child.kill();
                    let _ = child.wait();
                    return ChildEnd::Stalled(Vec::new());
                }
            }
        }
    }
}

/// Run a check under supervision: the batch runs in a child process; if that process is killed
/// (allocation failure, stack overflow, abort) or a run index stops making progress (a loop in
/// the code under test that never touches the transport), the supervisor finds the case that was
/// running, writes it as a replay file and reports the violation instead of dying with it.
pub fn supervise(id: &str, tier: Tier, opts: &Options) -> i32 {
    let root = verif_root();
    let run_dir = root.join("replays");
    let _ = std::fs::create_dir_all(&run_dir);
    let pid = std::process::id();
    let slots = run_dir.join(format!(".{}-{}.slots", id, pid));
    let _ = std::fs::remove_file(&slots);
    let exe = std::env::current_exe().expect("current exe");
    let mut child = match std::process::Command::new(&exe)
        .args(["check", id, "--tier", tier.as_str()])
        .env("MPDSIM_INNER", "1")
        .env("MPDSIM_SLOTS", &slots)
        .env("VERIF_SEED", opts.seed.to_string())
        .spawn()
    {
        Ok(c) => c,
        Err(e) => {
            eprintln!("HARNESS-ERROR cannot start the batch process: {}", e);
            return 2;
        }
    };
    let end = wait_supervised(&mut child, Progress::Slots(&slots), stall_limit());
    let active: Vec<u64> = read_slots(&slots).iter().filter_map(|t| slot_index(t)).collect();
    let _ = std::fs::remove_file(&slots);
    // a violation that had already been found (and was being minimised) when the process died
    let marker = slots.with_extension("found");
    let found: Option<String> = std::fs::read_to_string(&marker).ok();
    let _ = std::fs::remove_file(&marker);
    let (what, mut candidates) = match end {
        ChildEnd::Exit(c) => return c,
        ChildEnd::Crashed(w) => (format!("the process running the batch died ({})", w), active),
        ChildEnd::Stalled(idx) => (
            format!("a run made no progress for {} s", stall_limit().as_secs()),
            idx,
        ),
    };
    if let Some(path) = found {
        let path = path.trim().to_string();
        if let Ok(text) = std::fs::read_to_string(&path) {
            if let Ok(rf) = serde_json::from_str::<ReplayFile>(&text) {
                println!(
                    "supervisor: {} while a violation was being minimised; reporting the violation as it stood",
                    what
                );
                if supervise_replay(&path, true, false, &rf) == 1 {
                    println!("violation clause={} detail={}", rf.violation.clause, rf.violation.detail);
                    println!("VIOLATION property={} replay={}", id, path);
                    return 1;
                }
            }
        }
    }
    candidates.sort_unstable();
    candidates.dedup();
    println!("supervisor: {}; locating the case among run indexes {:?}", what, candidates);
    for index in candidates {
        let case_file = run_dir.join(format!(".{}-{}-{}.located", id, pid, index));
        let _ = std::fs::remove_file(&case_file);
        let mut lc = match std::process::Command::new(&exe)
            .args(["locate", id, tier.as_str(), &index.to_string()])
            .arg(&case_file)
            .env("VERIF_SEED", opts.seed.to_string())
            .spawn()
        {
            Ok(c) => c,
            Err(_) => continue,
        };
        let limit = stall_limit().min(Duration::from_secs(60));
        let clause = match wait_supervised(&mut lc, Progress::CaseFile(&case_file), limit) {
            ChildEnd::Exit(_) => {
                let _ = std::fs::remove_file(&case_file);
                continue;
            }
            ChildEnd::Crashed(w) => ("process_abort", format!("the process is killed while this case runs ({}): allocation failure, stack overflow or abort in the code under test", w)),
            ChildEnd::Stalled(_) => ("hang", format!("this case does not finish: {} s without completing, having either spun for at least {} s of CPU time or stopped using the CPU altogether", limit.as_secs(), limit.as_secs() / 2)),
        };
        let located: Option<Value> = std::fs::read(&case_file)
            .ok()
            .and_then(|b| serde_json::from_slice(&b).ok());
        let _ = std::fs::remove_file(&case_file);
        let Some(located) = located else {
            continue;
        };
        let rf = ReplayFile {
            property: id.to_string(),
            seed: opts.seed,
            index,
            violation: Violation::new(id, clause.0, clause.1.clone()).tag(clause.0),
            digest: 0,
            shrink_steps: 0,
            trace: vec![format!("located by re-running run index {} in a child process", index)],
            case: located["case"].clone(),
        };
        let path = run_dir.join(format!("{}-{}-{}.json", id, opts.seed, index));
        if std::fs::write(&path, serde_json::to_string_pretty(&rf).unwrap()).is_err() {
            eprintln!("HARNESS-ERROR cannot write replay file");
            return 2;
        }
        println!("violation clause={} detail={}", clause.0, clause.1);
        println!("VIOLATION property={} replay={}", id, path.display());
        return 1;
    }
    eprintln!("HARNESS-ERROR {} and no single case reproduces it", what);
    2
}

/// `mpdsim replay`: supervised, so that aborting / hanging cases can be replayed too.
pub fn supervise_replay(file: &str, quiet: bool, strict: bool, rf: &ReplayFile) -> i32 {
    let exe = std::env::current_exe().expect("current exe");
    let mut cmd = std::process::Command::new(&exe);
    cmd.args(["replay", file]).env("MPDSIM_INNER", "1");
    if quiet {
        cmd.arg("--quiet");
    }
    if strict {
        cmd.arg("--strict");
    }
    let Ok(mut child) = cmd.spawn() else {
        eprintln!("HARNESS-ERROR cannot start the replay process");
        return 2;
    };
    let limit = stall_limit().min(Duration::from_secs(60));
    match wait_supervised(&mut child, Progress::Whole, limit) {
        ChildEnd::Exit(c) => c,
        ChildEnd::Crashed(w) => {
            if !quiet {
                println!("reproduced: the process was killed while replaying ({})", w);
                println!("VIOLATION property={} replay=<this file>", rf.property);
            }
            if rf.violation.clause == "process_abort" || !strict {
                1
            } else {
                2
            }
        }
        ChildEnd::Stalled(_) => {
            if !quiet {
                println!("reproduced: the case does not finish within {} s", limit.as_secs());
                println!("VIOLATION property={} replay=<this file>", rf.property);
            }
            if rf.violation.clause == "hang" || !strict {
                1
            } else {
                2
            }
        }
    }
}

/// Digest list of the first `n` run indexes (every evaluation), for the determinism self-test.
pub fn digests<K: Check>(check: &K, seed: u64, n: u64, workers: usize, tier: Tier) -> Vec<(u64, u32, u64)> {
    let known = KnownFindings::default();
    let next = AtomicU64::new(0);
    let all: Mutex<Vec<(u64, u32, u64)>> = Mutex::new(Vec::new());
    std::thread::scope(|s| {
        for _ in 0..workers.max(1) {
            s.spawn(|| {
                let mut ctx: WorkerCtx<K::Case> = WorkerCtx::new(1);
                loop {
                    let i = next.fetch_add(1, Ordering::SeqCst);
                    if i >= n {
                        break;
                    }
                    ctx.cur_index = i;
                    ctx.cur_sub = 0;
                    check.run_index(seed, i, tier, &mut ctx, &known);
                }
                all.lock().unwrap().extend(ctx.digests);
            });
        }
    });
    let mut v = all.into_inner().unwrap();
    v.sort_unstable();
    v
}

fn shrink_case<K: Check>(
    check: &K,
    mut case: K::Case,
    mut v: Violation,
    known: &KnownFindings,
    hb: &WorkerCtx<K::Case>,
) -> (K::Case, Violation, u64) {
    let started = Instant::now();
    let mut steps = 0u64;
    let mut tries = 0u64;
    // position in the candidate list carries over after an accepted step, so that one kind of
    // simplification cannot starve the others
    let mut pos = 0usize;
    'outer: loop {
        let cands = check.shrink(&case);
        if cands.is_empty() {
            break;
        }
        let n = cands.len();
        for k in 0..n {
            if started.elapsed() > Duration::from_secs(90) || tries > 40_000 {
                break 'outer;
            }
            let idx = (pos + k) % n;
            tries += 1;
            hb.heartbeat(&format!("shrink {} t{}", tries, hb.tid));
            let ev = check.eval(&cands[idx]);
            if let Some(nv) = ev.violation {
                if nv.property == v.property && nv.clause == v.clause && known.matching(&nv).is_none()
                {
                    case = cands[idx].clone();
                    v = nv;
                    steps += 1;
                    pos = idx;
                    continue 'outer;
                }
            }
        }
        break;
    }
    (case, v, steps)
}

/// `mpdsim replay <file>`: exit 1 if the violation reproduces with the same clause and digest,
/// 0 if the case now passes, 2 otherwise.
pub fn replay<K: Check>(check: &K, rf: &ReplayFile, quiet: bool, strict: bool) -> i32 {
    let case: K::Case = match serde_json::from_value(rf.case.clone()) {
        Ok(c) => c,
        Err(e) => {
            eprintln!("HARNESS-ERROR cannot decode case: {}", e);
            return 2;
        }
    };
    let ev = check.eval(&case);
    let ev2 = check.eval(&case);
    if ev.digest != ev2.digest {
        eprintln!("HARNESS-ERROR replay is not deterministic");
        return 2;
    }
    if !quiet {
        for l in check.trace(&case) {
            println!("  {}", l);
        }
    }
    match ev.violation {
        Some(v) => {
            if v.clause == rf.violation.clause && ev.digest == rf.digest {
                if !quiet {
                    println!("reproduced: clause={} detail={}", v.clause, v.detail);
                    println!("VIOLATION property={} replay=<this file>", rf.property);
                }
                1
            } else if v.clause == rf.violation.clause {
                eprintln!(
                    "violation reproduces (clause {}) but the execution digest differs: {} vs {} \
                     (code under test changed?)",
                    v.clause, ev.digest, rf.digest
                );
                if strict {
                    return 2;
                }
                if !quiet {
                    println!("VIOLATION property={} replay=<this file>", rf.property);
                }
                1
            } else {
                eprintln!(
                    "a different violation occurs: clause={} detail={}",
                    v.clause, v.detail
                );
                if strict {
                    return 2;
                }
                1
            }
        }
        None => {
            if !quiet {
                println!("the case passes on the current tree");
            }
            0
        }
    }
}

pub fn sig_of(parts: &[&str]) -> u64 {
    let mut h = prng::Fnv::new();
    for p in parts {
        h.write_str(p);
    }
    h.finish()
}
