//! Reference line scanner for C09/P4: a non-streaming reading of a byte stream according to the
//! MPD response grammar from the protocol reference, sorting every line into *must-accept*,
//! *must-reject* or *either* (grey zone), so that the check never asks for more than the property
//! states. Written independently of the code under test.

use crate::canon::{CErr, CFrame, CResp, Terminal};
use crate::wire::reader::Outcome;

#[derive(Clone, Debug, PartialEq, Eq)]
pub enum Item {
    Field {
        key: String,
        value: String,
        grey: bool,
    },
    Binary(Vec<u8>),
    EndFrame,
}

#[derive(Clone, Debug, PartialEq, Eq)]
pub struct ScannedResp {
    pub items: Vec<Item>,
    /// `None` = ended by `OK`, `Some` = ended by this ACK
    pub ack: Option<CErr>,
}

#[derive(Clone, Debug, PartialEq, Eq)]
pub enum Trailer {
    /// stream ends exactly on a response boundary
    Clean,
    /// an unambiguously malformed line follows
    Reject(String),
    /// stream ends inside a production that is still valid so far
    PartialValid,
    /// stream ends inside an unterminated fragment that is already malformed (or grey)
    PartialEither,
}

#[derive(Clone, Debug)]
pub struct Scan {
    pub responses: Vec<ScannedResp>,
    /// complete lines after the last complete response
    pub tail: Vec<Item>,
    pub trailer: Trailer,
}

fn is_key_byte(b: u8) -> bool {
    b.is_ascii_alphabetic() || b == b'_' || b == b'-'
}

fn is_cmd_byte(b: u8) -> bool {
    b.is_ascii_alphabetic() || b == b'_'
}

fn parse_u64(d: &[u8]) -> Option<u64> {
    if d.is_empty() || !d.iter().all(|b| b.is_ascii_digit()) {
        return None;
    }
    let mut v: u64 = 0;
    for &b in d {
        v = v.checked_mul(10)?.checked_add((b - b'0') as u64)?;
    }
    Some(v)
}

/// Strict parse of a complete `ACK …` line (without LF). `line` starts with `ACK `.
fn parse_ack(line: &[u8]) -> Option<CErr> {
    let r = &line[4..];
    let mut i = 0;
    if r.get(i) != Some(&b'[') {
        return None;
    }
    i += 1;
    let s = i;
    while i < r.len() && r[i].is_ascii_digit() {
        i += 1;
    }
    let code = parse_u64(&r[s..i])?;
    if r.get(i) != Some(&b'@') {
        return None;
    }
    i += 1;
    let s = i;
    while i < r.len() && r[i].is_ascii_digit() {
        i += 1;
    }
    let index = parse_u64(&r[s..i])?;
    if r.get(i) != Some(&b']') || r.get(i + 1) != Some(&b' ') || r.get(i + 2) != Some(&b'{') {
        return None;
    }
    i += 3;
    let s = i;
    while i < r.len() && is_cmd_byte(r[i]) {
        i += 1;
    }
    let cmd = &r[s..i];
    if r.get(i) != Some(&b'}') || r.get(i + 1) != Some(&b' ') {
        return None;
    }
    i += 2;
    let msg = std::str::from_utf8(&r[i..]).ok()?;
    Some(CErr {
        code,
        index,
        command: if cmd.is_empty() {
            None
        } else {
            Some(String::from_utf8(cmd.to_vec()).unwrap())
        },
        message: msg.to_string(),
    })
}

fn utf8_prefix_ok(b: &[u8]) -> bool {
    match std::str::from_utf8(b) {
        Ok(_) => true,
        Err(e) => e.error_len().is_none(),
    }
}

/// Is the unterminated fragment after `ACK ` still the prefix of a valid ACK line?
fn ack_prefix_valid(r: &[u8]) -> bool {
    let mut i = 0;
    macro_rules! expect {
        ($c:expr) => {
            if i == r.len() {
                return true;
            }
            if r[i] != $c {
                return false;
            }
            i += 1;
        };
    }
    macro_rules! digits {
        () => {
            let s = i;
            while i < r.len() && r[i].is_ascii_digit() {
                i += 1;
            }
            if i == r.len() {
                return s == i || parse_u64(&r[s..i]).is_some();
            }
            if s == i || parse_u64(&r[s..i]).is_none() {
                return false;
            }
        };
    }
    expect!(b'[');
    digits!();
    expect!(b'@');
    digits!();
    expect!(b']');
    expect!(b' ');
    expect!(b'{');
    while i < r.len() && is_cmd_byte(r[i]) {
        i += 1;
    }
    expect!(b'}');
    expect!(b' ');
    utf8_prefix_ok(&r[i..])
}

/// Is this unterminated, non-empty fragment certainly the prefix of some valid line?
fn fragment_valid(f: &[u8]) -> bool {
    if b"OK".starts_with(f) || b"list_OK".starts_with(f) || b"ACK ".starts_with(f) {
        return true;
    }
    if f.starts_with(b"ACK ") {
        return ack_prefix_valid(&f[4..]);
    }
    if b"binary: ".starts_with(f) {
        return true;
    }
    if f.starts_with(b"binary: ") {
        let rest = &f[8..];
        return rest.is_empty() || parse_u64(rest).map(|v| usize::try_from(v).is_ok()) == Some(true);
    }
    let k = f.iter().take_while(|b| is_key_byte(**b)).count();
    if k == 0 {
        return false;
    }
    if k == f.len() {
        return true;
    }
    if f[k] != b':' {
        return false;
    }
    if k + 1 == f.len() {
        return true;
    }
    if f[k + 1] != b' ' {
        return false;
    }
    utf8_prefix_ok(&f[k + 2..])
}

pub fn scan(body: &[u8]) -> Scan {
    let mut responses = Vec::new();
    let mut cur: Vec<Item> = Vec::new();
    let mut pos = 0usize;
    let trailer;
    loop {
        if pos == body.len() {
            trailer = if cur.is_empty() {
                Trailer::Clean
            } else {
                Trailer::PartialValid
            };
            break;
        }
        let lf = match body[pos..].iter().position(|b| *b == b'\n') {
            None => {
                trailer = if fragment_valid(&body[pos..]) {
                    Trailer::PartialValid
                } else {
                    Trailer::PartialEither
                };
                break;
            }
            Some(i) => pos + i,
        };
        let line = &body[pos..lf];
        if line == b"OK" {
            responses.push(ScannedResp {
                items: std::mem::take(&mut cur),
                ack: None,
            });
            pos = lf + 1;
            continue;
        }
        if line == b"list_OK" {
            cur.push(Item::EndFrame);
            pos = lf + 1;
            continue;
        }
        if line.starts_with(b"ACK ") {
            match parse_ack(line) {
                Some(e) => {
                    responses.push(ScannedResp {
                        items: std::mem::take(&mut cur),
                        ack: Some(e),
                    });
                    pos = lf + 1;
                    continue;
                }
                None => {
                    trailer = Trailer::Reject(format!("ACK line at offset {} is malformed", pos));
                    break;
                }
            }
        }
        if line.starts_with(b"binary: ") {
            let rest = &line[8..];
            if !rest.is_empty() && rest.iter().all(|b| b.is_ascii_digit()) {
                match parse_u64(rest).and_then(|v| usize::try_from(v).ok()) {
                    Some(n) => {
                        let start = lf + 1;
                        let avail = body.len() - start;
                        if n >= avail {
                            // payload (or its terminating LF) not completely there
                            trailer = Trailer::PartialValid;
                            break;
                        }
                        if body[start + n] != b'\n' {
                            trailer = Trailer::Reject(format!(
                                "binary payload at offset {} not followed by LF",
                                start
                            ));
                            break;
                        }
                        cur.push(Item::Binary(body[start..start + n].to_vec()));
                        pos = start + n + 1;
                        continue;
                    }
                    None => {
                        // numeric token overflows: grey zone
                        cur.push(Item::Field {
                            key: "binary".into(),
                            value: String::from_utf8(rest.to_vec()).unwrap(),
                            grey: true,
                        });
                        pos = lf + 1;
                        continue;
                    }
                }
            }
            // `binary: <not a number>`: reads as an ordinary field, but nothing a server sends
            match std::str::from_utf8(rest) {
                Ok(v) => {
                    cur.push(Item::Field {
                        key: "binary".into(),
                        value: v.to_string(),
                        grey: true,
                    });
                    pos = lf + 1;
                    continue;
                }
                Err(_) => {
                    trailer = Trailer::Reject(format!("invalid UTF-8 in line at offset {}", pos));
                    break;
                }
            }
        }
        // key: value
        let sep = line.windows(2).position(|w| w == b": ");
        let Some(sep) = sep else {
            trailer = Trailer::Reject(format!(
                "line at offset {} has no \": \" separator and is no terminator",
                pos
            ));
            break;
        };
        let (key, value) = (&line[..sep], &line[sep + 2..]);
        if key.is_empty() {
            // a line that begins with the separator has no key at all: no reading of the
            // grammar (however wide its key alphabet) makes that a field
            trailer = Trailer::Reject(format!("line at offset {} has an empty key", pos));
            break;
        }
        let (Ok(key_s), Ok(value_s)) = (std::str::from_utf8(key), std::str::from_utf8(value))
        else {
            trailer = Trailer::Reject(format!("invalid UTF-8 in line at offset {}", pos));
            break;
        };
        let key_ok = !key.is_empty() && key.iter().all(|b| is_key_byte(*b));
        cur.push(Item::Field {
            key: key_s.to_string(),
            value: value_s.to_string(),
            grey: !key_ok,
        });
        pos = lf + 1;
    }
    Scan {
        responses,
        tail: cur,
        trailer,
    }
}

fn has_grey(items: &[Item]) -> bool {
    items
        .iter()
        .any(|i| matches!(i, Item::Field { grey: true, .. }))
}

impl ScannedResp {
    /// Literal assembling into frames when the response-level structure is regular (every list
    /// frame closed by `list_OK` before the final `OK`, at most one payload per frame).
    pub fn literal(&self) -> Option<CResp> {
        let mut groups: Vec<CFrame> = vec![CFrame::default()];
        let mut nframes_closed = 0;
        for it in &self.items {
            match it {
                Item::Field { key, value, .. } => groups
                    .last_mut()
                    .unwrap()
                    .fields
                    .push((key.clone(), value.clone())),
                Item::Binary(b) => {
                    let g = groups.last_mut().unwrap();
                    if g.binary.is_some() {
                        return None;
                    }
                    g.binary = Some(b.clone());
                }
                Item::EndFrame => {
                    nframes_closed += 1;
                    groups.push(CFrame::default());
                }
            }
        }
        let last = groups.pop().unwrap();
        match &self.ack {
            None => {
                if nframes_closed == 0 {
                    Some(CResp {
                        frames: vec![last],
                        error: None,
                    })
                } else if last == CFrame::default() {
                    Some(CResp {
                        frames: groups,
                        error: None,
                    })
                } else {
                    None
                }
            }
            Some(e) => Some(CResp {
                frames: groups,
                error: Some(e.clone()),
            }),
        }
    }

    /// Relaxed check for irregular structure: nothing fabricated.
    fn relaxed_ok(&self, actual: &CResp) -> bool {
        if actual.error != self.ack {
            return false;
        }
        let fields: Vec<(&str, &str)> = self
            .items
            .iter()
            .filter_map(|i| match i {
                Item::Field { key, value, .. } => Some((key.as_str(), value.as_str())),
                _ => None,
            })
            .collect();
        let mut fi = 0;
        for f in &actual.frames {
            for (k, v) in &f.fields {
                loop {
                    if fi >= fields.len() {
                        return false;
                    }
                    fi += 1;
                    if fields[fi - 1] == (k.as_str(), v.as_str()) {
                        break;
                    }
                }
            }
            if let Some(b) = &f.binary {
                if !self
                    .items
                    .iter()
                    .any(|i| matches!(i, Item::Binary(p) if p == b))
                {
                    return false;
                }
            }
        }
        true
    }
}

/// C09/P4: compare the outcome sequence with the scan. `Err(description)` = something was
/// fabricated, lost, or a malformed line was not rejected.
pub fn check_against_scan(scan: &Scan, out: &Outcome, silent: bool) -> Result<(), String> {
    // with a peer that stays connected and silent, "the stream ends here" becomes "the
    // operation waits": a clean end and an unexpected end of stream both turn into `Starved`
    let (clean_end, unexpected_end) = if silent {
        (Terminal::Starved, Terminal::Starved)
    } else {
        (Terminal::CleanEof, Terminal::UnexpectedEof)
    };
    let actual = &out.responses;
    for (ri, resp) in scan.responses.iter().enumerate() {
        if ri < actual.len() {
            match resp.literal() {
                Some(exp) => {
                    if actual[ri] != exp {
                        return Err(format!(
                            "response #{} differs from the lines the peer sent: got {} expected {}",
                            ri,
                            actual[ri].summary(),
                            exp.summary()
                        ));
                    }
                }
                None => {
                    if !resp.relaxed_ok(&actual[ri]) {
                        return Err(format!(
                            "response #{} contains data the peer did not send: {}",
                            ri,
                            actual[ri].summary()
                        ));
                    }
                }
            }
        } else {
            // the connection stopped before this response
            if out.terminal == Terminal::Invalid && has_grey(&resp.items) {
                return Ok(());
            }
            return Err(format!(
                "well-formed response #{} was not delivered (terminal {:?})",
                ri, out.terminal
            ));
        }
    }
    if actual.len() > scan.responses.len() {
        return Err(format!(
            "{} responses returned but the stream holds only {} complete ones",
            actual.len(),
            scan.responses.len()
        ));
    }
    let tail_grey = has_grey(&scan.tail);
    let ok = match &scan.trailer {
        Trailer::Clean => out.terminal == clean_end,
        Trailer::Reject(_) => out.terminal == Terminal::Invalid,
        Trailer::PartialValid => {
            out.terminal == unexpected_end || (tail_grey && out.terminal == Terminal::Invalid)
        }
        Trailer::PartialEither => {
            out.terminal == unexpected_end || out.terminal == Terminal::Invalid
        }
    };
    if ok {
        Ok(())
    } else {
        Err(format!(
            "terminal outcome {:?} but the reference scan says {:?}",
            out.terminal, scan.trailer
        ))
    }
}

/// Reference verdict on a greeting (first line of the stream).
#[derive(Clone, Debug, PartialEq, Eq)]
pub enum GreetingVerdict {
    Valid(String),
    /// terminated and malformed
    Invalid,
    /// unterminated, still a prefix of a valid greeting
    Eof,
    /// unterminated and already malformed: either error
    EofOrInvalid,
}

pub fn greeting_verdict(stream: &[u8]) -> GreetingVerdict {
    const PFX: &[u8] = b"OK MPD ";
    match stream.iter().position(|b| *b == b'\n') {
        Some(lf) => {
            let line = &stream[..lf];
            if line.len() > PFX.len() && line.starts_with(PFX) {
                match std::str::from_utf8(&line[PFX.len()..]) {
                    Ok(v) => GreetingVerdict::Valid(v.to_string()),
                    Err(_) => GreetingVerdict::Invalid,
                }
            } else {
                GreetingVerdict::Invalid
            }
        }
        None => {
            let ok_prefix = if stream.len() <= PFX.len() {
                PFX.starts_with(stream)
            } else {
                stream.starts_with(PFX) && utf8_prefix_ok(&stream[PFX.len()..])
            };
            if ok_prefix {
                GreetingVerdict::Eof
            } else {
                GreetingVerdict::EofOrInvalid
            }
        }
    }
}
