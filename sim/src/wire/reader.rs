//! `SimReader`: the simulated transport of the wire engine (implements `Read` and `AsyncRead`),
//! a budgeted mini executor, and the driver that turns a byte stream + segmentation into an
//! *outcome sequence* using the real `Connection` / `AsyncConnection`.

use std::cell::RefCell;
use std::future::Future;
use std::io::{self, Read};
use std::panic::{catch_unwind, AssertUnwindSafe};
use std::pin::Pin;
use std::rc::Rc;
use std::sync::atomic::{AtomicBool, Ordering};
use std::sync::Arc;
use std::task::{Context, Poll, Wake, Waker};

use mpd_protocol::{AsyncConnection, Connection};
use serde::{Deserialize, Serialize};
use tokio::io::{AsyncRead, ReadBuf};

use crate::canon::{cresp, terminal_of, CResp, Terminal};
use crate::panics;

#[derive(Clone, Copy, Debug, PartialEq, Eq, Serialize, Deserialize)]
pub enum Flavour {
    Blocking,
    Async,
}

/// Marker payload used to unwind out of library code when the read budget is exceeded.
pub struct BudgetExceeded(pub String);

/// Marker payload: a blocking read on a peer that stays connected and silent (it would block
/// for ever). Not a fault of the code under test by itself — the oracle decides whether the
/// operation had any business reading at that point.
pub struct Starved;

#[derive(Debug, Default)]
pub struct ReaderStats {
    pub reads: usize,
    pub reads_total: usize,
    pub pendings: usize,
    pub max_read: usize,
}

struct ReaderState {
    data: Vec<u8>,
    pos: usize,
    /// offsets no single read may cross
    barriers: Vec<usize>,
    segs: Vec<usize>,
    seg_i: usize,
    seg_left: usize,
    pending_pat: Vec<u8>,
    pending_i: usize,
    pending_left: u8,
    /// inject one transient read error at this read call (0-based, counted over the whole run)
    error_at: Option<(usize, io::ErrorKind)>,
    error_injected: bool,
    /// set when the error has just been returned; cleared by `take_transient`
    transient_pending: bool,
    // per-operation budget
    op_reads: usize,
    op_budget: usize,
    op_reads_after_end: usize,
    /// the peer never closes: after the last byte reads block (blocking) / stay Pending (async)
    silent: bool,
    starved: bool,
    stats: ReaderStats,
}

#[derive(Clone)]
pub struct SimReader(Rc<RefCell<ReaderState>>);

impl SimReader {
    pub fn new(data: Vec<u8>, barriers: Vec<usize>, segs: Vec<usize>, pending: Vec<u8>) -> Self {
        let segs = if segs.is_empty() { vec![usize::MAX] } else { segs };
        let pending_pat = if pending.is_empty() { vec![0] } else { pending };
        let seg_left = segs[0];
        let pending_left = pending_pat[0];
        SimReader(Rc::new(RefCell::new(ReaderState {
            data,
            pos: 0,
            barriers,
            segs,
            seg_i: 0,
            seg_left,
            pending_pat,
            pending_i: 0,
            pending_left,
            error_at: None,
            error_injected: false,
            transient_pending: false,
            op_reads: 0,
            op_budget: 0,
            op_reads_after_end: 0,
            silent: false,
            starved: false,
            stats: ReaderStats::default(),
        })))
    }

    pub fn set_silent(&self, silent: bool) {
        self.0.borrow_mut().silent = silent;
    }

    /// Did the last operation end up waiting for bytes of a silent peer?
    pub fn take_starved(&self) -> bool {
        std::mem::take(&mut self.0.borrow_mut().starved)
    }

    fn exhausted_and_silent(&self) -> bool {
        let s = self.0.borrow();
        s.silent && s.pos >= s.data.len()
    }

    /// Start a new `connect`/`receive` operation: reset the per-operation read budget.
    pub fn begin_op(&self) {
        let mut s = self.0.borrow_mut();
        s.op_reads = 0;
        s.op_reads_after_end = 0;
        s.op_budget = s.data.len() - s.pos + 1;
    }

    pub fn pos(&self) -> usize {
        self.0.borrow().pos
    }

    pub fn set_error_at(&self, read_index: usize, kind: io::ErrorKind) {
        self.0.borrow_mut().error_at = Some((read_index, kind));
    }

    /// Was the error of the last failed call the injected transient one?
    pub fn take_transient(&self) -> bool {
        std::mem::take(&mut self.0.borrow_mut().transient_pending)
    }

    /// `Some(kind)` if this read call is the one that fails.
    fn transient_now(&self) -> Option<io::ErrorKind> {
        let mut s = self.0.borrow_mut();
        if s.error_injected {
            return None;
        }
        if let Some((at, kind)) = s.error_at {
            if s.stats.reads_total >= at {
                s.error_injected = true;
                s.transient_pending = true;
                s.stats.reads_total += 1;
                // the failed call still counts against the operation's budget
                s.op_budget += 1;
                return Some(kind);
            }
        }
        None
    }

    pub fn total_reads(&self) -> usize {
        self.0.borrow().stats.reads_total
    }

    pub fn total_pendings(&self) -> usize {
        self.0.borrow().stats.pendings
    }

    fn do_read(&self, buf: &mut [u8]) -> usize {
        let mut s = self.0.borrow_mut();
        s.stats.reads_total += 1;
        s.op_reads += 1;
        if buf.is_empty() {
            drop(s);
            std::panic::panic_any(BudgetExceeded(
                "read with an empty buffer (a zero-length read is indistinguishable from EOF)"
                    .into(),
            ));
        }
        if s.op_reads > s.op_budget {
            let msg = format!(
                "more than {} reads in one operation (no progress)",
                s.op_budget
            );
            drop(s);
            std::panic::panic_any(BudgetExceeded(msg));
        }
        if s.pos >= s.data.len() {
            s.op_reads_after_end += 1;
            if s.op_reads_after_end > 1 {
                drop(s);
                std::panic::panic_any(BudgetExceeded(
                    "read again after end of stream within one operation".into(),
                ));
            }
            return 0;
        }
        let remaining = s.data.len() - s.pos;
        let mut n = remaining.min(buf.len()).min(s.seg_left);
        let pos = s.pos;
        for &b in &s.barriers {
            if b > pos && b - pos < n {
                n = b - pos;
            }
        }
        debug_assert!(n >= 1);
        buf[..n].copy_from_slice(&s.data[pos..pos + n]);
        s.pos += n;
        s.stats.max_read = s.stats.max_read.max(n);
        // advance the segmentation
        if s.seg_left != usize::MAX {
            s.seg_left -= n;
        }
        if s.seg_left == 0 {
            s.seg_i = (s.seg_i + 1).min(s.segs.len());
            let idx = if s.seg_i >= s.segs.len() {
                s.segs.len() - 1
            } else {
                s.seg_i
            };
            s.seg_left = s.segs[idx];
        }
        n
    }
}

impl Read for SimReader {
    fn read(&mut self, buf: &mut [u8]) -> io::Result<usize> {
        if let Some(kind) = self.transient_now() {
            return Err(io::Error::new(kind, "simulated transient read error"));
        }
        if self.exhausted_and_silent() {
            self.0.borrow_mut().starved = true;
            std::panic::panic_any(Starved);
        }
        Ok(self.do_read(buf))
    }
}

impl std::io::Write for SimReader {
    fn write(&mut self, buf: &[u8]) -> io::Result<usize> {
        Ok(buf.len())
    }
    fn flush(&mut self) -> io::Result<()> {
        Ok(())
    }
}

impl AsyncRead for SimReader {
    fn poll_read(
        self: Pin<&mut Self>,
        cx: &mut Context<'_>,
        buf: &mut ReadBuf<'_>,
    ) -> Poll<io::Result<()>> {
        {
            let mut s = self.0.borrow_mut();
            if s.pending_left > 0 {
                s.pending_left -= 1;
                s.stats.pendings += 1;
                cx.waker().wake_by_ref();
                return Poll::Pending;
            }
            // next read gets the next pattern entry
            s.pending_i = (s.pending_i + 1) % s.pending_pat.len();
            s.pending_left = s.pending_pat[s.pending_i];
        }
        if let Some(kind) = self.transient_now() {
            return Poll::Ready(Err(io::Error::new(kind, "simulated transient read error")));
        }
        if self.exhausted_and_silent() {
            // nobody will ever wake this task: the executor reports the lost wake-up and the
            // driver turns it into `Terminal::Starved`
            self.0.borrow_mut().starved = true;
            return Poll::Pending;
        }
        let n = {
            let dst = buf.initialize_unfilled();
            self.do_read(dst)
        };
        buf.advance(n);
        Poll::Ready(Ok(()))
    }
}

impl tokio::io::AsyncWrite for SimReader {
    fn poll_write(
        self: Pin<&mut Self>,
        _cx: &mut Context<'_>,
        buf: &[u8],
    ) -> Poll<io::Result<usize>> {
        Poll::Ready(Ok(buf.len()))
    }
    fn poll_flush(self: Pin<&mut Self>, _cx: &mut Context<'_>) -> Poll<io::Result<()>> {
        Poll::Ready(Ok(()))
    }
    fn poll_shutdown(self: Pin<&mut Self>, _cx: &mut Context<'_>) -> Poll<io::Result<()>> {
        Poll::Ready(Ok(()))
    }
}

struct FlagWaker(AtomicBool);

impl Wake for FlagWaker {
    fn wake(self: Arc<Self>) {
        self.0.store(true, Ordering::SeqCst);
    }
    fn wake_by_ref(self: &Arc<Self>) {
        self.0.store(true, Ordering::SeqCst);
    }
}

pub enum ExecError {
    /// `Pending` was returned without anybody having been asked to wake the task.
    LostWakeup,
    /// More polls than the budget allows.
    Budget,
}

/// Poll a future to completion on the current thread with a poll budget. The only source of
/// `Pending` is `SimReader`, which always wakes itself, so `Pending` without a wake is a hang.
pub fn block_on_budget<F: Future>(fut: F, budget: usize) -> Result<F::Output, ExecError> {
    let flag = Arc::new(FlagWaker(AtomicBool::new(false)));
    let waker = Waker::from(flag.clone());
    let mut cx = Context::from_waker(&waker);
    let mut fut = std::pin::pin!(fut);
    let mut polls = 0usize;
    loop {
        polls += 1;
        if polls > budget {
            return Err(ExecError::Budget);
        }
        flag.0.store(false, Ordering::SeqCst);
        match fut.as_mut().poll(&mut cx) {
            Poll::Ready(v) => return Ok(v),
            Poll::Pending => {
                if !flag.0.load(Ordering::SeqCst) {
                    return Err(ExecError::LostWakeup);
                }
            }
        }
    }
}

/// What the connection produced for one stream under one segmentation.
#[derive(Clone, Debug, PartialEq, Eq, Serialize, Deserialize)]
pub struct Outcome {
    /// `Ok(version)` or how `connect` failed.
    pub connect: Result<String, Terminal>,
    pub responses: Vec<CResp>,
    /// how the receive sequence ended (`Limit` when `connect` failed)
    pub terminal: Terminal,
    /// results of further `receive()` calls after the terminal outcome (retrying caller)
    pub after: Vec<Terminal>,
    pub reads: usize,
    pub pendings: usize,
    /// how the call that met the injected transient read error returned, if it did return an error
    #[serde(default)]
    pub transient: Option<Terminal>,
}

impl Outcome {
    /// The part of the outcome C02 compares across segmentations and flavours.
    pub fn comparable(&self) -> (&Result<String, Terminal>, &Vec<CResp>, &Terminal) {
        (&self.connect, &self.responses, &self.terminal)
    }

    pub fn summary(&self) -> String {
        let mut s = String::new();
        match &self.connect {
            Ok(v) => s.push_str(&format!("connect=Ok({:?}) ", crate::canon::clip(v, 16))),
            Err(t) => s.push_str(&format!("connect=Err({:?}) ", t)),
        }
        for r in self.responses.iter().take(4) {
            s.push_str(&r.summary());
            s.push(' ');
        }
        if self.responses.len() > 4 {
            s.push_str(&format!("… +{} responses ", self.responses.len() - 4));
        }
        s.push_str(&format!("terminal={:?}", self.terminal));
        if !self.after.is_empty() {
            s.push_str(&format!(" after={:?}", self.after));
        }
        s
    }
}

pub struct DriveInput<'a> {
    pub stream: &'a [u8],
    /// offset of the forced read boundary after the first line (greeting causality), if any
    pub barrier: Option<usize>,
    pub seg: &'a [usize],
    pub pending: &'a [u8],
    pub flavour: Flavour,
    /// number of extra `receive()` calls after the terminal outcome
    pub extra_receives: usize,
    /// one transient read error (kind name) at this read call; the driver keeps receiving after it
    pub error_at: Option<(usize, String)>,
    /// write a command (into a sink) before every `receive()`: what a pipelining caller does;
    /// sending must not touch what has been received
    pub send_between: bool,
    /// the peer never closes the connection: after its last byte it stays silent
    pub silent: bool,
    /// obtain every response through the `command()` / `command_list()` helpers (send + receive
    /// in one call) instead of `receive()`; the helpers report a clean end of stream as an
    /// unexpected-EOF error ("closed without a response to the command")
    pub via_command: bool,
}

pub fn kind_of(name: &str) -> io::ErrorKind {
    match name {
        "Interrupted" => io::ErrorKind::Interrupted,
        "WouldBlock" => io::ErrorKind::WouldBlock,
        "TimedOut" => io::ErrorKind::TimedOut,
        _ => io::ErrorKind::Other,
    }
}

fn panic_terminal(payload: Box<dyn std::any::Any + Send>) -> Terminal {
    if payload.downcast_ref::<Starved>().is_some() {
        return Terminal::Starved;
    }
    if let Some(b) = payload.downcast_ref::<BudgetExceeded>() {
        return Terminal::ReadBudget(b.0.clone());
    }
    let msg = if let Some(s) = payload.downcast_ref::<&str>() {
        s.to_string()
    } else if let Some(s) = payload.downcast_ref::<String>() {
        s.clone()
    } else {
        "<non-string panic payload>".to_string()
    };
    let loc = panics::take_last_location().unwrap_or_default();
    Terminal::Panic(format!("{} @ {}", msg, loc))
}

pub fn drive(input: &DriveInput<'_>) -> Outcome {
    let barriers: Vec<usize> = input.barrier.into_iter().collect();
    let reader = SimReader::new(
        input.stream.to_vec(),
        barriers,
        input.seg.to_vec(),
        input.pending.to_vec(),
    );
    let max_responses = input.stream.len() / 3 + 2;
    let handle = reader.clone();
    let mut out = Outcome {
        connect: Err(Terminal::Limit),
        responses: Vec::new(),
        terminal: Terminal::Limit,
        after: Vec::new(),
        reads: 0,
        pendings: 0,
        transient: None,
    };
    if let Some((at, kind)) = &input.error_at {
        handle.set_error_at(*at, kind_of(kind));
    }
    handle.set_silent(input.silent);
    match input.flavour {
        Flavour::Blocking => drive_blocking(reader, &handle, max_responses, input, &mut out),
        Flavour::Async => drive_async(reader, &handle, max_responses, input, &mut out),
    }
    out.reads = handle.total_reads();
    out.pendings = handle.total_pendings();
    out
}

fn drive_blocking(
    reader: SimReader,
    handle: &SimReader,
    max_responses: usize,
    input: &DriveInput<'_>,
    out: &mut Outcome,
) {
    handle.begin_op();
    let conn = catch_unwind(AssertUnwindSafe(|| Connection::connect(reader)));
    let mut conn = match conn {
        Err(p) => {
            out.connect = Err(panic_terminal(p));
            return;
        }
        Ok(Err(e)) => {
            out.connect = Err(terminal_of(&e));
            return;
        }
        Ok(Ok(c)) => c,
    };
    out.connect = Ok(conn.protocol_version().to_string());
    loop {
        if out.responses.len() >= max_responses {
            out.terminal = Terminal::Limit;
            return;
        }
        handle.begin_op();
        if input.send_between {
            let _ = catch_unwind(AssertUnwindSafe(|| {
                conn.send(mpd_protocol::Command::new("ping"))
            }));
        }
        let nth = out.responses.len();
        let step = catch_unwind(AssertUnwindSafe(|| {
            if input.via_command {
                if nth % 2 == 0 {
                    conn.command(mpd_protocol::Command::new("ping")).map(Some)
                } else {
                    conn.command_list(
                        mpd_protocol::CommandList::new(mpd_protocol::Command::new("ping"))
                            .command(mpd_protocol::Command::new("status")),
                    )
                    .map(Some)
                }
            } else {
                conn.receive()
            }
        }));
        match step {
            Err(p) => {
                out.terminal = panic_terminal(p);
                handle.take_starved();
                return;
            }
            Ok(Ok(Some(r))) => out.responses.push(cresp(&r)),
            Ok(Ok(None)) => {
                out.terminal = Terminal::CleanEof;
                break;
            }
            Ok(Err(e)) => {
                if handle.take_transient() {
                    // the injected transient failure: note how it surfaced and keep receiving,
                    // as a caller with a read timeout would
                    out.transient = Some(terminal_of(&e));
                    continue;
                }
                out.terminal = terminal_of(&e);
                break;
            }
        }
    }
    for _ in 0..input.extra_receives {
        handle.begin_op();
        match catch_unwind(AssertUnwindSafe(|| conn.receive())) {
            Err(p) => {
                out.after.push(panic_terminal(p));
                return;
            }
            Ok(Ok(Some(_))) => out.after.push(Terminal::Limit),
            Ok(Ok(None)) => out.after.push(Terminal::CleanEof),
            Ok(Err(e)) => out.after.push(terminal_of(&e)),
        }
    }
}

fn exec_terminal_of(handle: &SimReader, e: ExecError) -> Terminal {
    if matches!(e, ExecError::LostWakeup) && handle.take_starved() {
        return Terminal::Starved;
    }
    exec_terminal(e)
}

fn exec_terminal(e: ExecError) -> Terminal {
    match e {
        ExecError::LostWakeup => Terminal::PollBudget,
        ExecError::Budget => Terminal::PollBudget,
    }
}

fn drive_async(
    reader: SimReader,
    handle: &SimReader,
    max_responses: usize,
    input: &DriveInput<'_>,
    out: &mut Outcome,
) {
    // every read can be preceded by at most max(pending) Pendings; +16 slack
    let maxp = input.pending.iter().copied().max().unwrap_or(0) as usize;
    let poll_budget = |remaining: usize| (remaining + 2) * (maxp + 1) + 16;

    handle.begin_op();
    let budget = poll_budget(input.stream.len());
    let conn = catch_unwind(AssertUnwindSafe(|| {
        block_on_budget(AsyncConnection::connect(reader), budget)
    }));
    let mut conn = match conn {
        Err(p) => {
            out.connect = Err(panic_terminal(p));
            return;
        }
        Ok(Err(e)) => {
            out.connect = Err(exec_terminal_of(handle, e));
            return;
        }
        Ok(Ok(Err(e))) => {
            out.connect = Err(terminal_of(&e));
            return;
        }
        Ok(Ok(Ok(c))) => c,
    };
    out.connect = Ok(conn.protocol_version().to_string());
    loop {
        if out.responses.len() >= max_responses {
            out.terminal = Terminal::Limit;
            return;
        }
        handle.begin_op();
        let budget = poll_budget(input.stream.len() - handle.pos());
        if input.send_between {
            let list = mpd_protocol::CommandList::new(mpd_protocol::Command::new("ping"))
                .command(mpd_protocol::Command::new("status"));
            let _ = catch_unwind(AssertUnwindSafe(|| block_on_budget(conn.send_list(list), 64)));
        }
        let nth = out.responses.len();
        let step = catch_unwind(AssertUnwindSafe(|| {
            if input.via_command {
                let budget = budget + 64;
                if nth % 2 == 1 {
                    block_on_budget(conn.command(mpd_protocol::Command::new("ping")), budget)
                        .map(|r| r.map(Some))
                } else {
                    block_on_budget(
                        conn.command_list(
                            mpd_protocol::CommandList::new(mpd_protocol::Command::new("ping"))
                                .command(mpd_protocol::Command::new("status")),
                        ),
                        budget,
                    )
                    .map(|r| r.map(Some))
                }
            } else {
                block_on_budget(conn.receive(), budget)
            }
        }));
        match step {
            Err(p) => {
                out.terminal = panic_terminal(p);
                return;
            }
            Ok(Err(e)) => {
                out.terminal = exec_terminal_of(handle, e);
                return;
            }
            Ok(Ok(Ok(Some(r)))) => out.responses.push(cresp(&r)),
            Ok(Ok(Ok(None))) => {
                out.terminal = Terminal::CleanEof;
                break;
            }
            Ok(Ok(Err(e))) => {
                if handle.take_transient() {
                    out.transient = Some(terminal_of(&e));
                    continue;
                }
                out.terminal = terminal_of(&e);
                break;
            }
        }
    }
    for _ in 0..input.extra_receives {
        handle.begin_op();
        let budget = poll_budget(input.stream.len() - handle.pos());
        match catch_unwind(AssertUnwindSafe(|| block_on_budget(conn.receive(), budget))) {
            Err(p) => {
                out.after.push(panic_terminal(p));
                return;
            }
            Ok(Err(e)) => {
                out.after.push(exec_terminal_of(handle, e));
                return;
            }
            Ok(Ok(Ok(Some(_)))) => out.after.push(Terminal::Limit),
            Ok(Ok(Ok(None))) => out.after.push(Terminal::CleanEof),
            Ok(Ok(Err(e))) => out.after.push(terminal_of(&e)),
        }
    }
}
