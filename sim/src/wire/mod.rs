pub mod checks;
pub mod gen;
pub mod reader;
pub mod scan;
