//! Abstract sessions (what a well-formed MPD server says), an encoder that is independent of the
//! code under test and records every response boundary, transport faults on the encoded stream,
//! and segmentation policies.

use serde::{Deserialize, Serialize};

use crate::canon::{hex_bytes, CErr, CFrame, CResp};
use crate::prng::Rng;

#[derive(Clone, Debug, PartialEq, Eq, Serialize, Deserialize)]
pub enum AbsItem {
    Field(String, String),
    Binary(#[serde(with = "hex_bytes")] Vec<u8>),
}

#[derive(Clone, Debug, PartialEq, Eq, Serialize, Deserialize, Default)]
pub struct AbsFrame {
    pub items: Vec<AbsItem>,
}

#[derive(Clone, Debug, PartialEq, Eq, Serialize, Deserialize)]
pub enum AbsResp {
    /// fields…, `OK`
    Single(AbsFrame),
    /// (fields…, `list_OK`)+, `OK`
    List(Vec<AbsFrame>),
    /// (fields…, `list_OK`)*, fields of the failing command so far…, `ACK …`
    Error {
        completed: Vec<AbsFrame>,
        partial: AbsFrame,
        err: CErr,
    },
}

impl AbsFrame {
    pub fn canon(&self) -> CFrame {
        let mut f = CFrame::default();
        for it in &self.items {
            match it {
                AbsItem::Field(k, v) => f.fields.push((k.clone(), v.clone())),
                AbsItem::Binary(b) => f.binary = Some(b.clone()),
            }
        }
        f
    }

    fn encode(&self, out: &mut Vec<u8>) {
        for it in &self.items {
            match it {
                AbsItem::Field(k, v) => {
                    out.extend_from_slice(k.as_bytes());
                    out.extend_from_slice(b": ");
                    out.extend_from_slice(v.as_bytes());
                    out.push(b'\n');
                }
                AbsItem::Binary(b) => {
                    out.extend_from_slice(format!("binary: {}\n", b.len()).as_bytes());
                    out.extend_from_slice(b);
                    out.push(b'\n');
                }
            }
        }
    }
}

impl AbsResp {
    /// What the decoder must return for this response.
    pub fn canon(&self) -> CResp {
        match self {
            AbsResp::Single(f) => CResp {
                frames: vec![f.canon()],
                error: None,
            },
            AbsResp::List(fs) => CResp {
                frames: fs.iter().map(|f| f.canon()).collect(),
                error: None,
            },
            AbsResp::Error { completed, err, .. } => CResp {
                frames: completed.iter().map(|f| f.canon()).collect(),
                error: Some(err.clone()),
            },
        }
    }

    pub fn encode(&self, out: &mut Vec<u8>) {
        match self {
            AbsResp::Single(f) => {
                f.encode(out);
                out.extend_from_slice(b"OK\n");
            }
            AbsResp::List(fs) => {
                for f in fs {
                    f.encode(out);
                    out.extend_from_slice(b"list_OK\n");
                }
                out.extend_from_slice(b"OK\n");
            }
            AbsResp::Error {
                completed,
                partial,
                err,
            } => {
                for f in completed {
                    f.encode(out);
                    out.extend_from_slice(b"list_OK\n");
                }
                partial.encode(out);
                encode_ack(err, out);
            }
        }
    }
}

pub fn encode_ack(err: &CErr, out: &mut Vec<u8>) {
    out.extend_from_slice(
        format!(
            "ACK [{}@{}] {{{}}} {}\n",
            err.code,
            err.index,
            err.command.as_deref().unwrap_or(""),
            err.message
        )
        .as_bytes(),
    );
}

/// Encoded session: bytes plus the offset (relative to the start of the whole stream) at which
/// each response ends. `boundaries[0]` is the end of the greeting.
#[derive(Clone, Debug)]
pub struct Encoded {
    pub bytes: Vec<u8>,
    pub greeting_len: usize,
    pub boundaries: Vec<usize>,
    /// Byte ranges (absolute) that are length-delimited payloads.
    pub payload_ranges: Vec<(usize, usize)>,
}

pub fn encode_session(greeting: &[u8], session: &[AbsResp]) -> Encoded {
    let mut bytes = greeting.to_vec();
    let mut boundaries = vec![bytes.len()];
    let mut payload_ranges = Vec::new();
    for r in session {
        let start = bytes.len();
        r.encode(&mut bytes);
        // find payload ranges by re-walking the abstract response
        let mut off = start;
        let mut walk_frame = |f: &AbsFrame, off: &mut usize| {
            for it in &f.items {
                match it {
                    AbsItem::Field(k, v) => *off += k.len() + 2 + v.len() + 1,
                    AbsItem::Binary(b) => {
                        let hdr = format!("binary: {}\n", b.len()).len();
                        payload_ranges.push((*off + hdr, *off + hdr + b.len()));
                        *off += hdr + b.len() + 1;
                    }
                }
            }
        };
        match r {
            AbsResp::Single(f) => walk_frame(f, &mut off),
            AbsResp::List(fs) => {
                for f in fs {
                    walk_frame(f, &mut off);
                    off += 8;
                }
            }
            AbsResp::Error {
                completed, partial, ..
            } => {
                for f in completed {
                    walk_frame(f, &mut off);
                    off += 8;
                }
                walk_frame(partial, &mut off);
            }
        }
        boundaries.push(bytes.len());
    }
    Encoded {
        greeting_len: greeting.len(),
        bytes,
        boundaries,
        payload_ranges,
    }
}

// ---------------------------------------------------------------------------------------------
// Generators

/// Size class of a generated session; decides how big values / payloads may get.
#[derive(Clone, Copy, Debug, PartialEq, Eq)]
pub enum SizeClass {
    Tiny,
    Small,
    Medium,
    Large,
    /// payloads of several hundred KiB (values stay at most "large": a text line is re-scanned on
    /// every read, so megabyte lines fed bytewise would make single cases take minutes)
    Huge,
}

const KEYS: &[&str] = &[
    "file",
    "Title",
    "Artist",
    "Last-Modified",
    "volume",
    "song_id",
    "a",
    "Z",
    "-",
    "_",
    "changed",
    "size",
    "type",
    "OKAY",
    "list_OKx",
    "ACKnowledged",
    "Binary",
    "binaryx",
    "x-binary",
    "duration",
    "MUSICBRAINZ_ALBUMID",
];

const SPECIAL_VALUES: &[&str] = &[
    "",
    "OK",
    "list_OK",
    "ACK [5@0] {} x",
    "binary: 3",
    "binary: 0",
    " ",
    "  leading and trailing  ",
    "a: b: c",
    ": ",
    ":",
    "\r",
    "with\rcarriage",
    "\u{0}",
    "nul\u{0}inside",
    "ünïcödé",
    "日本語のタイトル",
    "🎵🎶",
    "\u{feff}bom",
    "tab\there",
    "OK\u{0}",
    "0",
    "18446744073709551616",
    "-1",
];

const SPECIAL_PAYLOADS: &[&[u8]] = &[
    b"",
    b"OK\n",
    b"list_OK\nOK\n",
    b"\n",
    b"\n\n",
    b"\0",
    b"\xff",
    b"\xff\xfe\xfd",
    b"binary: 2\n",
    b"binary: 2\nab\nOK\n",
    b"ACK [5@0] {} boom\n",
    b"foo: bar\nOK\n",
    b"FOOBAR",
    b"\x89PNG\r\n\x1a\n",
];

pub fn gen_key(rng: &mut Rng) -> String {
    if rng.chance(3, 4) {
        (*rng.pick(KEYS)).to_string()
    } else {
        let n = rng.urange(1, 12);
        let alphabet = b"abcdefghijklmnopqrstuvwxyzABCDEFGHIJKLMNOPQRSTUVWXYZ_-";
        let k: String = (0..n)
            .map(|_| *rng.pick(alphabet) as char)
            .collect();
        if k == "binary" {
            "binaryy".to_string()
        } else {
            k
        }
    }
}

fn gen_text(rng: &mut Rng, len: usize) -> String {
    // LF-free UTF-8 of roughly `len` bytes
    let mut s = String::with_capacity(len + 4);
    let pool: &[char] = &[
        'a', 'b', 'c', 'x', 'y', 'z', ' ', ':', '0', '9', '[', ']', '{', '}', '@', '"', '\'',
        '\\', 'é', 'ß', '語', '🎵', '\r', '\t', '\u{0}', 'O', 'K',
    ];
    while s.len() < len {
        s.push(*rng.pick(pool));
    }
    s
}

pub fn gen_value(rng: &mut Rng, class: SizeClass) -> String {
    let r = rng.below(100);
    if r < 30 {
        (*rng.pick(SPECIAL_VALUES)).to_string()
    } else if r < 85 {
        let n = rng.urange(0, 24);
        gen_text(rng, n)
    } else {
        let n = match class {
            SizeClass::Tiny => rng.urange(0, 8),
            SizeClass::Small => rng.urange(0, 80),
            SizeClass::Medium => *rng.pick(&[100usize, 1000, 4000, 4090, 4096, 4100, 5000]),
            SizeClass::Large => *rng.pick(&[4096usize, 8191, 8192, 8200, 16384, 20000, 33000]),
            // lines of hundreds of KiB: only fed in coarse segments (see `coarse_only`)
            SizeClass::Huge => *rng.pick(&[33000usize, 131073, 200_000, 300_000]),
        };
        gen_text(rng, n)
    }
}

pub fn gen_payload(rng: &mut Rng, class: SizeClass) -> Vec<u8> {
    let mut r = rng.below(100);
    if class == SizeClass::Huge && r >= 30 {
        r = 99; // most payloads of a huge-class stream are huge
    }
    if r < 40 {
        rng.pick(SPECIAL_PAYLOADS).to_vec()
    } else if r < 80 {
        let n = rng.urange(0, 40);
        let mut b = rng.bytes(n);
        // sprinkle newlines so that payloads contain line structure
        for x in b.iter_mut() {
            if *x % 7 == 0 {
                *x = b'\n';
            }
        }
        b
    } else {
        let n = match class {
            SizeClass::Tiny => rng.urange(0, 6),
            SizeClass::Small => rng.urange(0, 200),
            SizeClass::Medium => *rng.pick(&[1000usize, 4000, 4095, 4096, 4097, 6000]),
            SizeClass::Large => *rng.pick(&[8192usize, 8191, 12000, 16384, 16385, 40000]),
            SizeClass::Huge => *rng.pick(&[
                65535usize, 65536, 65537, 131073, 262144, 700_000, 1_048_577, 1_100_000, 2_200_000,
                2_200_000, 2_500_000, 4_300_000,
            ]),
        };
        rng.bytes(n)
    }
}

pub fn gen_frame(rng: &mut Rng, class: SizeClass) -> AbsFrame {
    let nf = match rng.below(10) {
        0 => 0,
        1..=5 => rng.urange(1, 3),
        6..=8 => rng.urange(2, 8),
        _ => match class {
            SizeClass::Tiny | SizeClass::Small => rng.urange(0, 6),
            _ => rng.urange(10, 60),
        },
    };
    let mut items: Vec<AbsItem> = (0..nf)
        .map(|_| AbsItem::Field(gen_key(rng), gen_value(rng, class)))
        .collect();
    if rng.chance(1, 4) {
        let pos = rng.urange(0, items.len());
        items.insert(pos, AbsItem::Binary(gen_payload(rng, class)));
    }
    AbsFrame { items }
}

pub fn gen_err(rng: &mut Rng, index_hint: u64) -> CErr {
    let code = *rng.pick(&[0u64, 1, 2, 3, 4, 5, 50, 52, 56, 255, u32::MAX as u64, u64::MAX]);
    let index = if rng.chance(3, 4) {
        index_hint
    } else {
        *rng.pick(&[0u64, 1, 7, u64::MAX])
    };
    let command = if rng.chance(1, 3) {
        None
    } else {
        Some(
            (*rng.pick(&["play", "command_list_end", "x", "readpicture", "Z_z", "_"])).to_string(),
        )
    };
    let message = match rng.below(6) {
        0 => String::new(),
        1 => "unknown command \"foo\"".to_string(),
        2 => "No such file".to_string(),
        3 => "OK".to_string(),
        4 => "{x} [1@2] ACK ünï".to_string(),
        _ => gen_text(rng, 12),
    };
    CErr {
        code,
        index,
        command,
        message,
    }
}

pub fn gen_resp(rng: &mut Rng, class: SizeClass) -> AbsResp {
    match rng.below(10) {
        0..=4 => AbsResp::Single(gen_frame(rng, class)),
        5..=7 => {
            let n = match rng.below(4) {
                0 => 1,
                1 | 2 => rng.urange(2, 4),
                _ => rng.urange(2, 9),
            };
            AbsResp::List((0..n).map(|_| gen_frame(rng, class)).collect())
        }
        _ => {
            let k = if rng.chance(1, 2) { 0 } else { rng.urange(1, 4) };
            let completed: Vec<AbsFrame> = (0..k).map(|_| gen_frame(rng, class)).collect();
            let partial = if rng.chance(1, 2) {
                AbsFrame::default()
            } else {
                gen_frame(rng, class)
            };
            AbsResp::Error {
                completed,
                partial,
                err: gen_err(rng, k as u64),
            }
        }
    }
}

pub fn gen_class(rng: &mut Rng) -> SizeClass {
    *rng.pick_weighted(&[
        (4, SizeClass::Tiny),
        (4, SizeClass::Small),
        (2, SizeClass::Medium),
        (1, SizeClass::Large),
    ])
}

/// Like `gen_class`, with a small share of huge payloads (checks that can afford them).
pub fn gen_class_with_huge(rng: &mut Rng) -> SizeClass {
    if rng.chance(1, 40) {
        SizeClass::Huge
    } else {
        gen_class(rng)
    }
}

/// A long history on one connection: hundreds to thousands of tiny responses.
pub fn gen_long_session(rng: &mut Rng) -> Vec<AbsResp> {
    let n = *rng.pick(&[255usize, 256, 257, 300, 1000, 1025, 3000]);
    (0..n)
        .map(|i| {
            if i % 97 == 13 {
                gen_resp(rng, SizeClass::Small)
            } else {
                gen_resp(rng, SizeClass::Tiny)
            }
        })
        .collect()
}

/// A big listing: hundreds to thousands of short lines in one response (what `playlistinfo`
/// or `listall` return) — a single frame, or spread over a few frames of a list reply.
pub fn gen_listing(rng: &mut Rng) -> AbsResp {
    let n = *rng.pick(&[513usize, 600, 1025, 2049, 4000]);
    let field = |rng: &mut Rng| AbsItem::Field(gen_key(rng), gen_value(rng, SizeClass::Tiny));
    if rng.chance(2, 3) {
        AbsResp::Single(AbsFrame {
            items: (0..n).map(|_| field(rng)).collect(),
        })
    } else {
        let k = rng.urange(2, 4);
        AbsResp::List(
            (0..k)
                .map(|_| AbsFrame {
                    items: (0..n / k).map(|_| field(rng)).collect(),
                })
                .collect(),
        )
    }
}

pub fn gen_session(rng: &mut Rng, class: SizeClass) -> Vec<AbsResp> {
    let n = match rng.below(10) {
        0 => 0,
        1..=4 => 1,
        5..=7 => rng.urange(2, 3),
        _ => rng.urange(3, 8),
    };
    let mut s: Vec<AbsResp> = (0..n).map(|_| gen_resp(rng, class)).collect();
    if rng.chance(1, 40) {
        let at = rng.urange(0, s.len());
        s.insert(at, gen_listing(rng));
    }
    s
}

/// Make the encoded body (everything after the greeting) end exactly at, one short of, or one
/// past a receive-buffer capacity 4096·2^k — counted from the start of the body or from the
/// start of the stream — by appending one padded single-frame response. Returns false if the
/// session is already too long for the largest target.
pub fn fit_to_capacity(rng: &mut Rng, session: &mut Vec<AbsResp>, greeting_len: usize) -> bool {
    let body_len: usize = {
        let mut out = Vec::new();
        for r in session.iter() {
            r.encode(&mut out);
        }
        out.len()
    };
    let base = *rng.pick(&[4096usize, 4096, 8192, 16384]);
    let from_stream_start = rng.chance(1, 3);
    let delta = *rng.pick(&[0isize, 0, 0, -1, 1]);
    let mut target = (base as isize + delta) as usize;
    if from_stream_start {
        target = target.saturating_sub(greeting_len);
    }
    // "pad: " + value + LF + "OK" + LF
    const OVERHEAD: usize = 5 + 1 + 3;
    let mut t = target;
    while t < body_len + OVERHEAD {
        t += base;
        if t > 70_000 {
            return false;
        }
    }
    let v = "p".repeat(t - body_len - OVERHEAD);
    session.push(AbsResp::Single(AbsFrame {
        items: vec![AbsItem::Field("pad".into(), v)],
    }));
    true
}

pub fn gen_version(rng: &mut Rng) -> Vec<u8> {
    match rng.below(12) {
        0..=5 => (*rng.pick(&["0.23.5", "0.21.11", "0.24.0", "1", "0.19.0~git"]))
            .as_bytes()
            .to_vec(),
        6 => " ".as_bytes().to_vec(),
        7 => "0.23 with blanks ".as_bytes().to_vec(),
        8 => "vér\rsion\u{0}🎵".as_bytes().to_vec(),
        9 => {
            let n = *rng.pick(&[4000usize, 4089, 4090, 4096, 5000, 8185, 8192, 9000]);
            gen_text(rng, n).into_bytes()
        }
        _ => {
            let n = rng.urange(1, 20);
            gen_text(rng, n).into_bytes()
        }
    }
}

/// A version far beyond any size someone might cap a line at (only for the greeting check, which
/// feeds it in coarse segments: `connect` re-parses the whole line on every read).
pub fn gen_version_giant(rng: &mut Rng) -> Vec<u8> {
    let n = *rng.pick(&[70_000usize, 1_048_570, 1_100_000]);
    gen_text(rng, n).into_bytes()
}

pub fn valid_greeting(version: &[u8]) -> Vec<u8> {
    let mut g = b"OK MPD ".to_vec();
    g.extend_from_slice(version);
    g.push(b'\n');
    g
}

pub fn default_greeting() -> Vec<u8> {
    b"OK MPD 0.23.5\n".to_vec()
}

// ---------------------------------------------------------------------------------------------
// Transport faults on an encoded stream

#[derive(Clone, Debug, PartialEq, Eq, Serialize, Deserialize)]
pub enum WireFault {
    Truncate(usize),
    Flip(usize, u8),
    Insert(usize, #[serde(with = "hex_bytes")] Vec<u8>),
    Delete(usize, usize),
    Duplicate(usize, usize),
}

impl WireFault {
    pub fn kind(&self) -> &'static str {
        match self {
            WireFault::Truncate(_) => "truncate",
            WireFault::Flip(..) => "flip",
            WireFault::Insert(..) => "insert",
            WireFault::Delete(..) => "delete",
            WireFault::Duplicate(..) => "duplicate",
        }
    }

    pub fn apply(&self, bytes: &mut Vec<u8>) {
        match self {
            WireFault::Truncate(off) => bytes.truncate(*off),
            WireFault::Flip(off, bit) => {
                if let Some(b) = bytes.get_mut(*off) {
                    *b ^= 1 << (bit % 8);
                }
            }
            WireFault::Insert(off, ins) => {
                let off = (*off).min(bytes.len());
                let tail = bytes.split_off(off);
                bytes.extend_from_slice(ins);
                bytes.extend_from_slice(&tail);
            }
            WireFault::Delete(off, len) => {
                let off = (*off).min(bytes.len());
                let end = (off + len).min(bytes.len());
                bytes.drain(off..end);
            }
            WireFault::Duplicate(off, len) => {
                let off = (*off).min(bytes.len());
                let end = (off + len).min(bytes.len());
                let seg = bytes[off..end].to_vec();
                let tail = bytes.split_off(end);
                bytes.extend_from_slice(&seg);
                bytes.extend_from_slice(&tail);
            }
        }
    }
}

const SOUP: &[&[u8]] = &[
    b"OK\n",
    b"OK",
    b"list_OK\n",
    b"ACK [",
    b"ACK ",
    b"@",
    b"] ",
    b"{",
    b"} ",
    b"binary: ",
    b": ",
    b"\n",
    b"\0",
    b"\xff",
    b"5",
    b"0",
    b"+",
    b"-",
    b"+3",
    b"18446744073709551615",
    b"18446744073709551616",
    b"9223372036854775808",
    b"99999999999999999999",
    b"foo",
    b"a",
    b" ",
    b"\r",
    b"\xc3",
    b"\xe2\x82",
];

pub fn gen_insert_bytes(rng: &mut Rng) -> Vec<u8> {
    match rng.below(4) {
        0 => {
            let n = rng.urange(1, 6);
            rng.bytes(n)
        }
        1 => rng.pick(SOUP).to_vec(),
        2 => b"\n".to_vec(),
        _ => {
            let mut v = Vec::new();
            for _ in 0..rng.urange(1, 4) {
                v.extend_from_slice(*rng.pick(SOUP));
            }
            v
        }
    }
}

pub fn gen_fault(rng: &mut Rng, len: usize) -> WireFault {
    let off = if len == 0 { 0 } else { rng.usize_below(len) };
    match rng.below(5) {
        0 => WireFault::Truncate(rng.urange(0, len)),
        1 => WireFault::Flip(off, rng.below(8) as u8),
        2 => WireFault::Insert(rng.urange(0, len), gen_insert_bytes(rng)),
        3 => WireFault::Delete(off, rng.urange(1, 6)),
        _ => WireFault::Duplicate(off, rng.urange(1, 12)),
    }
}

/// Random byte strings over several alphabets (for C09).
pub fn gen_soup(rng: &mut Rng) -> Vec<u8> {
    let mut out = Vec::new();
    match rng.below(3) {
        0 => {
            let n = rng.urange(0, 64);
            out = rng.bytes(n);
            for x in out.iter_mut() {
                if *x % 5 == 0 {
                    *x = b'\n';
                }
            }
        }
        _ => {
            let n = rng.urange(0, 24);
            for _ in 0..n {
                out.extend_from_slice(*rng.pick(SOUP));
            }
        }
    }
    out
}

/// Numeric and structural edge cases seeded into the C09 corpus (stream bodies after a greeting).
pub fn edge_corpus() -> Vec<Vec<u8>> {
    let mut v: Vec<Vec<u8>> = Vec::new();
    for n in [
        "18446744073709551616",
        "18446744073709551615",
        "9223372036854775808",
        "9223372036854775807",
        "4294967296",
        "99999999999999999999999999999",
        "0",
        "00000000000000000000000001",
    ] {
        v.push(format!("binary: {}\n", n).into_bytes());
        v.push(format!("binary: {}\nabc\nOK\n", n).into_bytes());
        v.push(format!("size: 3\nbinary: {}\nabc\nOK\n", n).into_bytes());
        v.push(format!("ACK [{}@0] {{}} x\n", n).into_bytes());
        v.push(format!("ACK [5@{}] {{play}} x\n", n).into_bytes());
    }
    // numbers that a lenient integer parser accepts and the protocol does not
    for n in ["+5", "-5", "+0", " 5", "5 ", "0x10", "1e3", "５", "٣", "1_000", ""] {
        v.push(format!("ACK [{}@0] {{}} x\n", n).into_bytes());
        v.push(format!("ACK [5@{}] {{}} x\n", n).into_bytes());
        v.push(format!("binary: {}\nabc\nOK\n", n).into_bytes());
        v.push(format!("size: 3\nbinary: {}\nabc\nOK\n", n).into_bytes());
    }
    for s in [
        &b"foo: bar\n\xffgarbage\nOK\n"[..],
        b"foo: bar\n\xffgarbage\n",
        b"\xff\n",
        b"foo\n",
        b"foo:bar\n",
        b"foo : bar\n",
        b": bar\n",
        b"OK \n",
        b"OK\r\n",
        b"list_OK \n",
        b"ACK\n",
        b"ACK \n",
        b"ACK [5@0] {} \n",
        b"ACK [5@0] {}\n",
        b"ACK [5@0]{} x\n",
        b"ACK [5@0] {pl ay} x\n",
        b"ACK [5@0] {play} \xff\n",
        b"ACK [-1@0] {} x\n",
        b"ACK [@0] {} x\n",
        b"ACK [5@] {} x\n",
        b"ACK [5 @0] {} x\n",
        b"binary: 3\nabcd\nOK\n",
        b"binary: 3\nab\nOK\n",
        b"binary: 3\nabc",
        b"binary: 3\nabcOK\n",
        b"binary: -3\nabc\nOK\n",
        b"binary: 3 \nabc\nOK\n",
        b"binary:3\nabc\nOK\n",
        b"binary: \nOK\n",
        b"binary: 0\n\nOK\n",
        b"binary: 0\nOK\n",
        b"binary: 1\n\n\nbinary: 1\n\n\nOK\n",
        b"foo: \xc3\n",
        b"f\xc3\xa9: x\n",
        b"foo: bar\0\nOK\n",
        b"\0\n",
        b"\n",
        b"\n\n\n",
        b"list_OK\nlist_OK\nOK\n",
        b"a: b\nlist_OK\nc: d\nOK\n",
        b"list_OK\nACK [1@1] {} x\n",
        b"O",
        b"OK",
        b"l",
        b"A",
        b"ACK [5@0] {} unterminated",
        b"binary: 12",
        b"key",
        b"key:",
        b"key: ",
        b"key: v",
    ] {
        v.push(s.to_vec());
    }
    v
}

// ---------------------------------------------------------------------------------------------
// Segmentation policies

/// A segmentation is a list of read sizes; the last one repeats forever. `usize::MAX` means "as
/// much as the caller's buffer takes".
pub type Seg = Vec<usize>;

pub const WHOLE: usize = usize::MAX;

pub fn seg_whole() -> Seg {
    vec![WHOLE]
}

pub fn seg_bytewise() -> Seg {
    vec![1]
}

/// 2-way split of the part after the greeting at relative offset `k`.
pub fn seg_split2(k: usize) -> Seg {
    if k == 0 {
        vec![WHOLE]
    } else {
        vec![k, WHOLE]
    }
}

/// Explicit list from absolute cut offsets (sorted, within body; relative to body start).
pub fn seg_from_cuts(cuts: &[usize]) -> Seg {
    let mut seg = Vec::new();
    let mut prev = 0;
    for &c in cuts {
        if c > prev {
            seg.push(c - prev);
            prev = c;
        }
    }
    seg.push(WHOLE);
    seg
}

/// Segmentation aligned with line feeds of the body (each read = one line, payload bytes
/// included until their next LF).
pub fn seg_lines(body: &[u8]) -> Seg {
    let cuts: Vec<usize> = body
        .iter()
        .enumerate()
        .filter(|(_, b)| **b == b'\n')
        .map(|(i, _)| i + 1)
        .collect();
    seg_from_cuts(&cuts)
}

/// Cut just before every LF (so every read starts with the LF of the previous line).
pub fn seg_before_lf(body: &[u8]) -> Seg {
    let cuts: Vec<usize> = body
        .iter()
        .enumerate()
        .filter(|(i, b)| **b == b'\n' && *i > 0)
        .map(|(i, _)| i)
        .collect();
    seg_from_cuts(&cuts)
}

pub fn seg_random(rng: &mut Rng, body_len: usize) -> Seg {
    if body_len == 0 {
        return seg_whole();
    }
    let k = rng.urange(1, 8.min(body_len));
    let mut cuts: Vec<usize> = (0..k).map(|_| rng.urange(0, body_len)).collect();
    cuts.sort_unstable();
    cuts.dedup();
    seg_from_cuts(&cuts)
}

/// Cyclic pattern of small sizes.
pub fn seg_pattern(rng: &mut Rng) -> Seg {
    let n = rng.urange(1, 5);
    (0..n)
        .map(|_| *rng.pick(&[1usize, 2, 3, 5, 7, 16, 64, 100, 1000, 4096, 4097]))
        .collect()
}

/// Reads that straddle the receive-buffer capacities 4096·2^k.
pub fn seg_straddle(rng: &mut Rng) -> Seg {
    let base = *rng.pick(&[4096usize, 8192, 16384]);
    let delta = *rng.pick(&[0usize, 1, 2, 3, 17]);
    let first = if rng.chance(1, 2) {
        base - delta.min(base - 1)
    } else {
        base + delta
    };
    vec![first, *rng.pick(&[1usize, 2, 4096, WHOLE])]
}

pub fn gen_seg(rng: &mut Rng, body: &[u8]) -> (Seg, &'static str) {
    match rng.below(9) {
        0 => (seg_whole(), "whole"),
        1 => (seg_bytewise(), "bytewise"),
        2 => (seg_lines(body), "lines"),
        3 => (seg_before_lf(body), "before_lf"),
        4 => (seg_random(rng, body.len()), "random"),
        5 => (seg_pattern(rng), "pattern"),
        6 => (seg_straddle(rng), "straddle"),
        7 => {
            let k = if body.is_empty() {
                0
            } else {
                rng.usize_below(body.len())
            };
            (seg_split2(k), "split2")
        }
        _ => (vec![2], "pairs"),
    }
}

/// For streams with very long text lines: a line is re-scanned on every read, so fine-grained
/// policies would make a single case quadratic. Keep the policies whose reads are few.
pub fn coarse_only(name: &str) -> bool {
    matches!(name, "whole" | "lines" | "before_lf" | "random" | "split2" | "split3" | "around_boundaries")
}

pub fn gen_pending(rng: &mut Rng) -> Vec<u8> {
    match rng.below(4) {
        0 | 1 => vec![0],
        2 => vec![1],
        _ => (0..rng.urange(1, 5)).map(|_| rng.below(3) as u8).collect(),
    }
}
