//! Wire-engine checks: C02 (segmentation independence), C03 (exact decoding), C09 (arbitrary
//! bytes), C10 (EOF classification) and the greeting half of C18.

use std::time::Duration;

use serde::{Deserialize, Serialize};
use serde_json::json;

use crate::alloc;
use crate::canon::{hex_bytes, show_bytes, Terminal};
use crate::framework::{sig_of, Check, Eval, KnownFindings, Tier, Violation, WorkerCtx};
use crate::prng::{mix, Fnv, Rng};
use crate::wire::gen::{self, AbsResp, Encoded, Seg, SizeClass, WireFault};
use crate::wire::reader::{drive, DriveInput, Flavour, Outcome};
use crate::wire::scan::{self, GreetingVerdict};

#[derive(Clone, Debug, Serialize, Deserialize)]
pub enum Source {
    /// greeting + abstract session, encoded by the harness; optional truncation (`cut`) and fault
    Session {
        #[serde(with = "hex_bytes")]
        greeting: Vec<u8>,
        session: Vec<AbsResp>,
        cut: Option<usize>,
        fault: Option<WireFault>,
    },
    /// explicit bytes (greeting line included)
    Raw {
        #[serde(with = "hex_bytes")]
        stream: Vec<u8>,
    },
}

#[derive(Clone, Debug, Serialize, Deserialize)]
pub struct WireCase {
    pub source: Source,
    pub seg: Seg,
    pub seg_name: String,
    pub pending: Vec<u8>,
    pub flavour: Flavour,
    /// one transient read error (Interrupted / WouldBlock / TimedOut) at this read call
    #[serde(default)]
    pub error_at: Option<(usize, String)>,
    /// the driver writes a command before every receive (pipelining caller)
    #[serde(default)]
    pub send_between: bool,
    /// the peer stays connected and silent after its last byte (no end of stream): everything
    /// complete must be delivered without waiting for bytes that never come
    #[serde(default)]
    pub silent: bool,
    /// every response is obtained through the `command()` / `command_list()` helpers (send and
    /// receive in one call); they report a clean end of stream as unexpected EOF
    #[serde(default)]
    pub via_command: bool,
}

pub struct Material {
    pub stream: Vec<u8>,
    pub encoded: Option<Encoded>,
    pub barrier: Option<usize>,
}

impl WireCase {
    pub fn materialize(&self) -> Material {
        match &self.source {
            Source::Session {
                greeting,
                session,
                cut,
                fault,
            } => {
                let enc = gen::encode_session(greeting, session);
                let mut stream = enc.bytes.clone();
                if let Some(f) = fault {
                    f.apply(&mut stream);
                }
                if let Some(c) = cut {
                    stream.truncate(*c);
                }
                let barrier = first_line_end(&stream);
                Material {
                    stream,
                    encoded: Some(enc),
                    barrier,
                }
            }
            Source::Raw { stream } => Material {
                stream: stream.clone(),
                encoded: None,
                barrier: first_line_end(stream),
            },
        }
    }
}

/// Greeting causality: a server sends nothing after its greeting before it has received a
/// command, so a read boundary always falls at the end of the first line.
fn first_line_end(stream: &[u8]) -> Option<usize> {
    stream.iter().position(|b| *b == b'\n').map(|i| i + 1)
}

fn run_case(case: &WireCase, m: &Material, extra: usize) -> Outcome {
    drive(&DriveInput {
        stream: &m.stream,
        barrier: m.barrier,
        seg: &case.seg,
        pending: &case.pending,
        flavour: case.flavour,
        extra_receives: extra,
        error_at: case.error_at.clone(),
        send_between: case.send_between,
        silent: case.silent,
        via_command: case.via_command,
    })
}

fn outcome_digest(o: &Outcome) -> u64 {
    let mut h = Fnv::new();
    h.write_str(&format!("{:?}", o.connect));
    for r in &o.responses {
        for f in &r.frames {
            for (k, v) in &f.fields {
                h.write_str(k);
                h.write_str(v);
            }
            if let Some(b) = &f.binary {
                h.write(b);
            }
            h.write(&[1]);
        }
        if let Some(e) = &r.error {
            h.write_u64(e.code);
            h.write_u64(e.index);
            h.write_str(e.command.as_deref().unwrap_or("\u{1}"));
            h.write_str(&e.message);
        }
        h.write(&[2]);
    }
    h.write_str(&format!("{:?}{:?}", o.terminal, o.after));
    h.write_u64(o.reads as u64);
    h.write_u64(o.pendings as u64);
    h.finish()
}

/// Harness-level failures (panic, spin, lost wake-up) are violations of whatever property is
/// being checked: a crashed or hung connection delivers nothing.
fn crash_violation(prop: &str, o: &Outcome) -> Option<Violation> {
    let mut all: Vec<&Terminal> = vec![&o.terminal];
    if let Err(t) = &o.connect {
        all.push(t);
    }
    all.extend(o.after.iter());
    for t in all {
        match t {
            Terminal::Panic(m) => {
                return Some(Violation::new(prop, "panic", format!("panic: {}", m)).tag("panic"))
            }
            Terminal::ReadBudget(m) => {
                return Some(Violation::new(prop, "read_budget", format!("read budget: {}", m)))
            }
            Terminal::PollBudget => {
                return Some(Violation::new(
                    prop,
                    "poll_budget",
                    "future returned Pending without a wake-up or exceeded the poll budget",
                ))
            }
            _ => {}
        }
    }
    None
}

fn session_shape(session: &[AbsResp]) -> String {
    let mut s = String::new();
    for r in session.iter().take(6) {
        match r {
            AbsResp::Single(f) => s.push_str(&format!("S{}{}", f.items.len().min(9), bin_flag(f))),
            AbsResp::List(fs) => s.push_str(&format!("L{}", fs.len().min(9))),
            AbsResp::Error {
                completed, partial, ..
            } => s.push_str(&format!(
                "E{}p{}",
                completed.len().min(9),
                partial.items.len().min(3)
            )),
        }
    }
    if session.len() > 6 {
        s.push('+');
    }
    s
}

fn bin_flag(f: &gen::AbsFrame) -> &'static str {
    if f.items.iter().any(|i| matches!(i, gen::AbsItem::Binary(_))) {
        "b"
    } else {
        ""
    }
}

fn size_bucket(n: usize) -> &'static str {
    match n {
        0..=63 => "<64",
        64..=1023 => "<1k",
        1024..=4095 => "<4k",
        4096..=8191 => "<8k",
        8192..=16383 => "<16k",
        _ => ">=16k",
    }
}

/// Which kind of region of an encoded stream an offset falls into.
pub fn region_at(enc: &Encoded, off: usize) -> &'static str {
    if off < enc.greeting_len {
        return "greeting";
    }
    if enc.boundaries.contains(&off) {
        return "boundary";
    }
    for (s, e) in &enc.payload_ranges {
        if off >= *s && off < *e {
            return "payload";
        }
        if off == *e {
            return "payload_lf";
        }
    }
    // find the line containing `off` (payloads excluded above)
    let mut ls = off;
    while ls > 0 && enc.bytes[ls - 1] != b'\n' {
        ls -= 1;
    }
    let le = enc.bytes[ls..]
        .iter()
        .position(|b| *b == b'\n')
        .map(|i| ls + i)
        .unwrap_or(enc.bytes.len());
    let line = &enc.bytes[ls..le];
    if off == ls {
        if line == b"OK" || line == b"list_OK" {
            return "before_terminator";
        }
        return "line_start";
    }
    if line == b"OK" || line == b"list_OK" {
        return "terminator";
    }
    if line.starts_with(b"ACK ") {
        return "ack";
    }
    if line.starts_with(b"binary: ") {
        return "binhdr";
    }
    match line.windows(2).position(|w| w == b": ") {
        Some(sep) if off - ls <= sep => "key",
        Some(sep) if off - ls <= sep + 2 => "separator",
        _ => {
            if off == le {
                "line_lf"
            } else {
                "value"
            }
        }
    }
}

fn trace_case(case: &WireCase, extra: usize) -> Vec<String> {
    let m = case.materialize();
    let mut t = Vec::new();
    t.push(format!(
        "stream ({} bytes): {}",
        m.stream.len(),
        show_bytes(&m.stream, 600)
    ));
    if let Some(e) = &m.encoded {
        t.push(format!("response boundaries: {:?}", e.boundaries));
    }
    if case.silent {
        t.push("the peer stays connected and silent after its last byte (no end of stream)".into());
    }
    t.push(format!(
        "flavour={:?} segmentation={} {:?} pending={:?} barrier={:?}",
        case.flavour,
        case.seg_name,
        case.seg
            .iter()
            .map(|s| if *s == usize::MAX {
                "rest".to_string()
            } else {
                s.to_string()
            })
            .collect::<Vec<_>>(),
        case.pending,
        m.barrier
    ));
    let o = run_case(case, &m, extra);
    t.push(format!("outcome: {}", o.summary()));
    t.push(format!("reads={} pendings={}", o.reads, o.pendings));
    t
}

// ---- generic shrinking of wire cases ---------------------------------------------------------

fn shrink_wire(case: &WireCase) -> Vec<WireCase> {
    let mut out = Vec::new();
    // simpler segmentations / pending patterns first
    if case.pending != vec![0] {
        let mut c = case.clone();
        c.pending = vec![0];
        out.push(c);
    }
    if case.seg != gen::seg_whole() {
        let mut c = case.clone();
        c.seg = gen::seg_whole();
        c.seg_name = "whole".into();
        out.push(c);
    }
    if case.seg.len() > 2 {
        for i in 0..case.seg.len() - 1 {
            let mut c = case.clone();
            let removed = c.seg.remove(i);
            if c.seg[i] != usize::MAX && removed != usize::MAX {
                c.seg[i] += removed;
            }
            out.push(c);
        }
    }
    match &case.source {
        Source::Session {
            greeting,
            session,
            cut,
            fault,
        } => {
            let mk = |session: Vec<AbsResp>| {
                let mut c = case.clone();
                let new_len = gen::encode_session(greeting, &session).bytes.len();
                let shift = |o: usize| o.min(new_len);
                c.source = Source::Session {
                    greeting: greeting.clone(),
                    session,
                    cut: cut.map(shift),
                    fault: fault.clone(),
                };
                c
            };
            if greeting != &gen::default_greeting() && cut.is_none() && fault.is_none() {
                let mut c = case.clone();
                c.source = Source::Session {
                    greeting: gen::default_greeting(),
                    session: session.clone(),
                    cut: *cut,
                    fault: fault.clone(),
                };
                out.push(c);
            }
            // drop whole responses
            for i in 0..session.len() {
                let mut s = session.clone();
                s.remove(i);
                out.push(mk(s));
            }
            // simplify inside responses
            for i in 0..session.len() {
                for simpler in simplify_resp(&session[i]) {
                    let mut s = session.clone();
                    s[i] = simpler;
                    out.push(mk(s));
                }
            }
        }
        Source::Raw { stream } => {
            // delta-debugging style chunk removal
            let n = stream.len();
            let mut chunk = n / 2;
            while chunk >= 1 {
                let mut start = 0;
                while start < n {
                    let end = (start + chunk).min(n);
                    let mut s = stream.clone();
                    s.drain(start..end);
                    let mut c = case.clone();
                    c.source = Source::Raw { stream: s };
                    out.push(c);
                    start += chunk;
                }
                if chunk == 1 {
                    break;
                }
                chunk /= 2;
            }
            // replace bytes by 'a'
            for i in 0..n.min(64) {
                if stream[i] != b'a' && stream[i] != b'\n' {
                    let mut s = stream.clone();
                    s[i] = b'a';
                    let mut c = case.clone();
                    c.source = Source::Raw { stream: s };
                    out.push(c);
                }
            }
        }
    }
    out
}

fn case_session(case: &WireCase) -> Vec<AbsResp> {
    match &case.source {
        Source::Session { session, .. } => session.clone(),
        _ => Vec::new(),
    }
}

fn simplify_frame(f: &gen::AbsFrame) -> Vec<gen::AbsFrame> {
    let mut out = Vec::new();
    for i in 0..f.items.len() {
        let mut g = f.clone();
        g.items.remove(i);
        out.push(g);
    }
    for i in 0..f.items.len() {
        match &f.items[i] {
            gen::AbsItem::Field(k, v) => {
                if v.len() > 1 {
                    let mut g = f.clone();
                    let half: String = v.chars().take(v.chars().count() / 2).collect();
                    g.items[i] = gen::AbsItem::Field(k.clone(), half);
                    out.push(g);
                }
                if k != "a" {
                    let mut g = f.clone();
                    g.items[i] = gen::AbsItem::Field("a".into(), v.clone());
                    out.push(g);
                }
            }
            gen::AbsItem::Binary(b) => {
                if b.len() > 1 {
                    let mut g = f.clone();
                    g.items[i] = gen::AbsItem::Binary(b[..b.len() / 2].to_vec());
                    out.push(g);
                }
            }
        }
    }
    out
}

fn simplify_resp(r: &AbsResp) -> Vec<AbsResp> {
    let mut out = Vec::new();
    match r {
        AbsResp::Single(f) => {
            for g in simplify_frame(f) {
                out.push(AbsResp::Single(g));
            }
        }
        AbsResp::List(fs) => {
            if fs.len() > 1 {
                for i in 0..fs.len() {
                    let mut g = fs.clone();
                    g.remove(i);
                    out.push(AbsResp::List(g));
                }
            }
            for i in 0..fs.len() {
                for g in simplify_frame(&fs[i]) {
                    let mut h = fs.clone();
                    h[i] = g;
                    out.push(AbsResp::List(h));
                }
            }
        }
        AbsResp::Error {
            completed,
            partial,
            err,
        } => {
            for i in 0..completed.len() {
                let mut g = completed.clone();
                g.remove(i);
                out.push(AbsResp::Error {
                    completed: g,
                    partial: partial.clone(),
                    err: err.clone(),
                });
            }
            for g in simplify_frame(partial) {
                out.push(AbsResp::Error {
                    completed: completed.clone(),
                    partial: g,
                    err: err.clone(),
                });
            }
            for i in 0..completed.len() {
                for g in simplify_frame(&completed[i]) {
                    let mut h = completed.clone();
                    h[i] = g;
                    out.push(AbsResp::Error {
                        completed: h,
                        partial: partial.clone(),
                        err: err.clone(),
                    });
                }
            }
        }
    }
    out
}

fn wire_components() -> (Vec<String>, Vec<String>) {
    (
        vec![
            "mpd_protocol::Connection (connect, receive) — real, unmodified".into(),
            "mpd_protocol::AsyncConnection (connect, receive) — real, unmodified".into(),
            "mpd_protocol parser + ResponseBuilder — real, unmodified".into(),
        ],
        vec![
            "transport: SimReader (harness) implementing Read/AsyncRead; owns segmentation, Pending pattern, EOF, corruption".into(),
            "async executor: 30-line budgeted poll loop (no tokio runtime)".into(),
            "peer: harness-side encoder of abstract sessions / byte-string generators".into(),
        ],
    )
}

fn all_flavours() -> [Flavour; 2] {
    [Flavour::Blocking, Flavour::Async]
}

fn sample_json(case: &WireCase, extra: usize) -> serde_json::Value {
    json!({ "trace": trace_case(case, extra) })
}

// =============================================================================================
// C03

pub struct C03;

fn eval_c03(case: &WireCase) -> Eval {
    let m = case.materialize();
    let enc = m.encoded.as_ref().expect("C03 cases are session based");
    let o = run_case(case, &m, 0);
    let mut ev = Eval {
        digest: outcome_digest(&o),
        ..Default::default()
    };
    let session = case_session(case);
    ev.signature = sig_of(&[
        &session_shape(&session),
        size_bucket(enc.bytes.len()),
        &case.seg_name,
        &format!("{:?}", case.flavour),
    ]);
    ev.nontrivial = !session.is_empty();
    ev.violation = (|| {
        if let Some(v) = crash_violation("C03", &o) {
            return Some(v);
        }
        let version = String::from_utf8_lossy(&enc.bytes[7..enc.greeting_len - 1]).to_string();
        if o.connect != Ok(version) {
            return Some(Violation::new(
                "C03",
                "connect",
                format!("connect returned {:?}", o.connect),
            ));
        }
        for (i, r) in session.iter().enumerate() {
            let exp = r.canon();
            match o.responses.get(i) {
                None => {
                    return Some(Violation::new(
                        "C03",
                        "response_missing",
                        format!(
                            "receive #{} did not return the response the server encoded; sequence ended with {:?}",
                            i, o.terminal
                        ),
                    ))
                }
                Some(got) if *got != exp => {
                    return Some(Violation::new(
                        "C03",
                        "response_mismatch",
                        format!(
                            "receive #{} returned {} but the server encoded {}",
                            i,
                            got.summary(),
                            exp.summary()
                        ),
                    ))
                }
                _ => {}
            }
        }
        if o.responses.len() > session.len() {
            return Some(Violation::new(
                "C03",
                "response_extra",
                format!(
                    "{} responses returned, the server encoded {}",
                    o.responses.len(),
                    session.len()
                ),
            ));
        }
        let expected_end = if case.silent {
            Terminal::Starved
        } else if case.via_command {
            // the helpers have no way to say "closed cleanly": no response is an error for them
            Terminal::UnexpectedEof
        } else {
            Terminal::CleanEof
        };
        // through the helpers a clean end can only come out as *some* I/O error ("closed without
        // a response"); which kind is the implementation's choice
        let helper_end_ok = case.via_command
            && !case.silent
            && matches!(o.terminal, Terminal::UnexpectedEof | Terminal::Io(_));
        if o.terminal != expected_end && !helper_end_ok {
            return Some(Violation::new(
                "C03",
                "terminal",
                format!(
                    "after the last response receive returned {:?}, expected {}",
                    o.terminal,
                    if case.silent {
                        "it to wait for the silent peer"
                    } else {
                        "a clean end"
                    }
                ),
            ));
        }
        None
    })();
    ev
}

impl Check for C03 {
    type Case = WireCase;
    fn id(&self) -> &'static str {
        "C03"
    }
    fn level(&self) -> &'static str {
        "exploration"
    }
    fn budget(&self, tier: Tier) -> (u64, Duration) {
        match tier {
            Tier::Quick => (12_000, Duration::from_secs(120)),
            Tier::Thorough => (u64::MAX, Duration::from_secs(600)),
        }
    }
    fn run_index(
        &self,
        seed: u64,
        index: u64,
        _tier: Tier,
        ctx: &mut WorkerCtx<WireCase>,
        known: &KnownFindings,
    ) {
        let mut rng = Rng::new(mix(seed, "C03", index));
        // a quarter of the run indexes have a peer that stays connected and silent at the end
        let silent = Rng::new(mix(seed, "C03.silent", index)).chance(1, 4);
        if silent {
            ctx.counters.bump("silent_peer_streams");
        }
        // a third of the run indexes write a command before every receive (pipelining caller)
        let send_between = rng.chance(1, 3);
        // a sixth obtains every response through the `command()` / `command_list()` helpers
        let via_command = Rng::new(mix(seed, "C03.via_command", index)).chance(1, 6);
        if via_command {
            ctx.counters.bump("streams_read_through_command_helpers");
        }
        let class = gen::gen_class_with_huge(&mut rng);
        let greeting = if rng.chance(1, 8) {
            gen::valid_greeting(&gen::gen_version(&mut rng))
        } else {
            gen::default_greeting()
        };
        let long = rng.chance(1, 80);
        let session = if long {
            ctx.counters.bump("long_history_sessions");
            gen::gen_long_session(&mut rng)
        } else {
            gen::gen_session(&mut rng, class)
        };
        let mut session = session;
        if !long
            && class != SizeClass::Huge
            && Rng::new(mix(seed, "C03.fit", index)).chance(1, 20)
            && gen::fit_to_capacity(&mut Rng::new(mix(seed, "C03.fit2", index)), &mut session, greeting.len())
        {
            ctx.counters.bump("streams_ending_at_a_buffer_capacity");
        }
        let enc = gen::encode_session(&greeting, &session);
        let body = &enc.bytes[enc.greeting_len..];
        ctx.counters.bump(&format!("class.{:?}", class));
        if class == SizeClass::Huge {
            ctx.counters.bump("huge_payload_streams");
        }
        ctx.counters.add("responses", session.len() as u64);
        if enc.bytes.len() > 4096 {
            ctx.counters.bump("stream_crosses_4096");
        }
        if enc.bytes.len() > 16384 {
            ctx.counters.bump("stream_crosses_16384");
        }
        if !enc.payload_ranges.is_empty() {
            ctx.counters.bump("with_binary");
        }
        // several segmentations per stream: the fixed policies plus random ones
        let mut segs: Vec<(Seg, String)> = vec![
            (gen::seg_whole(), "whole".into()),
            (gen::seg_bytewise(), "bytewise".into()),
            (gen::seg_lines(body), "lines".into()),
            (gen::seg_before_lf(body), "before_lf".into()),
        ];
        // cuts exactly at / around every response boundary (carry-over between receives)
        let mut cuts = Vec::new();
        for b in &enc.boundaries[1..] {
            let rel = b - enc.greeting_len;
            let d = rng.urange(0, 3);
            cuts.push(rel.saturating_sub(d));
            cuts.push(rel + rng.urange(0, 3));
        }
        cuts.sort_unstable();
        cuts.dedup();
        segs.push((gen::seg_from_cuts(&cuts), "around_boundaries".into()));
        for _ in 0..3 {
            let (s, n) = gen::gen_seg(&mut rng, body);
            segs.push((s, n.to_string()));
        }
        if body.len() > 1 && body.len() <= 96 {
            for k in 1..body.len() {
                segs.push((gen::seg_split2(k), "split2".into()));
            }
        }
        // every 3-way split of very small streams
        if body.len() > 2 && body.len() <= 40 {
            ctx.counters.bump("streams_with_every_3way_split");
            for a in 1..body.len() - 1 {
                for b in a + 1..body.len() {
                    segs.push((gen::seg_from_cuts(&[a, b]), "split3".into()));
                }
            }
        }
        for (seg, name) in segs {
            if class == SizeClass::Huge && !gen::coarse_only(&name) {
                continue;
            }
            for fl in all_flavours() {
                let case = WireCase {
                    source: Source::Session {
                        greeting: greeting.clone(),
                        session: session.clone(),
                        cut: None,
                        fault: None,
                    },
                    seg: seg.clone(),
                    seg_name: name.clone(),
                    pending: if fl == Flavour::Async {
                        gen::gen_pending(&mut rng)
                    } else {
                        vec![0]
                    },
                    flavour: fl,
                    error_at: None,
                    send_between: send_between && !via_command,
                    silent,
                    via_command,
                };
                ctx.about_to_eval(&case);
                let ev = eval_c03(&case);
                ctx.counters.bump(&format!("seg.{}", name));
                if ctx.want_sample() && index % 5 == 1 && session.len() >= 2 {
                    ctx.sample(sample_json(&case, 0));
                }
                ctx.record(&case, ev, known);
            }
        }
    }
    fn eval(&self, case: &WireCase) -> Eval {
        eval_c03(case)
    }
    fn shrink(&self, case: &WireCase) -> Vec<WireCase> {
        shrink_wire(case)
    }
    fn trace(&self, case: &WireCase) -> Vec<String> {
        trace_case(case, 0)
    }
    fn rule(&self) -> String {
        "one evaluation = one (abstract session, segmentation, flavour) triple driven through the real \
         connect/receive; sessions are generated from the run seed (0..8 responses: single / list / \
         error-after-k-frames, values and payloads from keyword-mimicking, empty, NUL, non-ASCII and \
         > 4 KiB classes); every 2-way split for bodies up to 96 B and every 3-way split up to 40 B; \
         distinct = distinct (session shape, stream size bucket, segmentation \
         policy, flavour); non-trivial = session has at least one response".into()
    }
    fn assumptions(&self) -> Vec<String> {
        vec![
            "a read boundary falls at the end of the greeting (a server sends nothing before it has received a command)".into(),
            "field keys are drawn from [A-Za-z_-]+ excluding the exact key 'binary'".into(),
            "at most one binary payload per frame (protocol rule)".into(),
        ]
    }
    fn components(&self) -> (Vec<String>, Vec<String>) {
        wire_components()
    }
    fn probes(&self) -> Vec<&'static str> {
        vec![
            "stream_crosses_4096",
            "stream_crosses_16384",
            "with_binary",
            "long_history_sessions",
            "huge_payload_streams",
        ]
    }
}

// =============================================================================================
// C10

pub struct C10;

/// C10 under one transient read failure (read timeout, EINTR, EWOULDBLOCK) with a caller that
/// keeps receiving: whatever the connection does with the failure, it must not report a clean
/// close unless the stream really ended on a response boundary after everything was delivered,
/// and every response it returns must be the next one the server encoded.
fn eval_c10_transient(case: &WireCase) -> Eval {
    let m = case.materialize();
    let enc = m.encoded.as_ref().expect("C10 cases are session based");
    let cut = match &case.source {
        Source::Session { cut, .. } => cut.unwrap_or(enc.bytes.len()),
        _ => unreachable!(),
    };
    let o = run_case(case, &m, 1);
    let session = case_session(case);
    let mut ev = Eval {
        digest: outcome_digest(&o),
        ..Default::default()
    };
    let (at, kind) = case.error_at.clone().unwrap_or((0, String::new()));
    ev.signature = sig_of(&[
        "transient",
        &kind,
        &session_shape(&session),
        if cut >= enc.bytes.len() { "end" } else { region_at(enc, cut) },
        &case.seg_name,
        &format!("{:?}", case.flavour),
        &format!("{:?}", o.transient.is_some()),
    ]);
    ev.nontrivial = o.transient.is_some() || o.connect.is_err();
    ev.violation = (|| {
        if let Some(v) = crash_violation("C10", &o) {
            return Some(v.tag("transient_read_error"));
        }
        if o.connect.is_err() {
            return None; // the failure (or the cut) hit the greeting
        }
        let complete = enc.boundaries[1..].iter().filter(|b| **b <= cut).count();
        for (i, r) in o.responses.iter().enumerate() {
            if i >= complete || *r != session[i].canon() {
                return Some(
                    Violation::new(
                        "C10",
                        "wrong_response_after_transient_read_error",
                        format!(
                            "after a {} error at read #{} receive #{} returned {} which is not response #{} of the stream (complete responses before the cut: {})",
                            kind,
                            at,
                            i,
                            r.summary(),
                            i,
                            complete
                        ),
                    )
                    .tag("transient_read_error"),
                );
            }
        }
        let on_boundary = enc.boundaries.contains(&cut);
        if o.terminal == Terminal::CleanEof && !(on_boundary && o.responses.len() == complete) {
            return Some(
                Violation::new(
                    "C10",
                    "clean_close_reported_after_transient_read_error",
                    format!(
                        "a {} error at read #{} (surfaced as {:?}); then a clean close was reported after {} of {} complete responses, stream cut at {} (on a boundary: {})",
                        kind,
                        at,
                        o.transient,
                        o.responses.len(),
                        complete,
                        cut,
                        on_boundary
                    ),
                )
                .tag("transient_read_error"),
            );
        }
        if !on_boundary
            && o.terminal == Terminal::UnexpectedEof
            && o.after.first() == Some(&Terminal::CleanEof)
        {
            return Some(
                Violation::new(
                    "C10",
                    "mid_response_eof_reported_clean_on_retry",
                    format!("after a {} error at read #{}: cut at {} reported as unexpected EOF, then as a clean close", kind, at, cut),
                )
                .tag("transient_read_error"),
            );
        }
        None
    })();
    ev
}

fn eval_c10(case: &WireCase) -> Eval {
    if case.error_at.is_some() {
        return eval_c10_transient(case);
    }
    let m = case.materialize();
    let enc = m.encoded.as_ref().expect("C10 cases are session based");
    let cut = match &case.source {
        Source::Session { cut, .. } => cut.unwrap_or(enc.bytes.len()),
        _ => unreachable!(),
    };
    // one further receive after the terminal outcome: a retrying caller must not be told that
    // a stream which ended inside a response was closed cleanly
    let o = run_case(case, &m, 1);
    let session = case_session(case);
    let mut ev = Eval {
        digest: outcome_digest(&o),
        ..Default::default()
    };
    let region = region_at(enc, cut.min(enc.bytes.len().saturating_sub(0)));
    let region = if cut >= enc.bytes.len() { "end" } else { region };
    ev.signature = sig_of(&[
        &session_shape(&session),
        region,
        &case.seg_name,
        &format!("{:?}", case.flavour),
    ]);
    ev.nontrivial = true;
    ev.violation = (|| {
        if let Some(v) = crash_violation("C10", &o) {
            return Some(v);
        }
        if cut < enc.greeting_len {
            return if o.connect == Err(Terminal::UnexpectedEof) {
                None
            } else {
                Some(Violation::new(
                    "C10",
                    "greeting_eof",
                    format!(
                        "stream ends inside the greeting at offset {} but connect returned {:?}",
                        cut, o.connect
                    ),
                ))
            };
        }
        if o.connect.is_err() {
            return Some(Violation::new(
                "C10",
                "connect",
                format!("connect failed with {:?} on a complete greeting", o.connect),
            ));
        }
        // responses wholly before the cut
        let complete = enc.boundaries[1..].iter().filter(|b| **b <= cut).count();
        for i in 0..complete {
            let exp = session[i].canon();
            match o.responses.get(i) {
                Some(got) if *got == exp => {}
                other => {
                    return Some(Violation::new(
                        "C10",
                        "complete_response_lost",
                        format!(
                            "response #{} lies wholly before the cut at {} but receive gave {:?} (terminal {:?})",
                            i,
                            cut,
                            other.map(|r| r.summary()),
                            o.terminal
                        ),
                    ))
                }
            }
        }
        if o.responses.len() > complete {
            return Some(Violation::new(
                "C10",
                "partial_response_delivered",
                format!(
                    "{} responses delivered but only {} lie wholly before the cut at {}",
                    o.responses.len(),
                    complete,
                    cut
                ),
            ));
        }
        let on_boundary = enc.boundaries.contains(&cut);
        let expected = if on_boundary {
            Terminal::CleanEof
        } else {
            Terminal::UnexpectedEof
        };
        if !on_boundary && o.after.first() == Some(&Terminal::CleanEof) {
            return Some(
                Violation::new(
                    "C10",
                    "mid_response_eof_reported_clean_on_retry",
                    format!(
                        "cut at {} ({}) was reported as {:?}, but the next receive() reported a clean close although part of a response had been received",
                        cut, region, o.terminal
                    ),
                )
                .tag(format!("region={}", region)),
            );
        }
        if o.terminal != expected {
            return Some(
                Violation::new(
                    "C10",
                    if on_boundary {
                        "boundary_eof_not_clean"
                    } else {
                        "mid_response_eof_not_reported"
                    },
                    format!(
                        "cut at {} ({}; on boundary: {}) ended with {:?}, expected {:?}",
                        cut, region, on_boundary, o.terminal, expected
                    ),
                )
                .tag(format!("region={}", region)),
            );
        }
        None
    })();
    ev
}

impl Check for C10 {
    type Case = WireCase;
    fn id(&self) -> &'static str {
        "C10"
    }
    fn level(&self) -> &'static str {
        "fault_enumeration"
    }
    fn budget(&self, tier: Tier) -> (u64, Duration) {
        match tier {
            Tier::Quick => (400, Duration::from_secs(120)),
            Tier::Thorough => (u64::MAX, Duration::from_secs(600)),
        }
    }
    fn run_index(
        &self,
        seed: u64,
        index: u64,
        tier: Tier,
        ctx: &mut WorkerCtx<WireCase>,
        known: &KnownFindings,
    ) {
        let mut rng = Rng::new(mix(seed, "C10", index));
        // quick: small streams, every cut; thorough: also large streams with sub-sampled cuts
        let class = match tier {
            Tier::Quick => *rng.pick_weighted(&[
                (10, SizeClass::Tiny),
                (5, SizeClass::Small),
                (1, SizeClass::Medium),
                (1, SizeClass::Large),
            ]),
            Tier::Thorough => gen::gen_class(&mut rng),
        };
        let greeting = if rng.chance(1, 6) {
            gen::valid_greeting(&gen::gen_version(&mut rng))
        } else {
            gen::default_greeting()
        };
        let mut session = gen::gen_session(&mut rng, class);
        if session.is_empty() && rng.chance(3, 4) {
            session.push(gen::gen_resp(&mut rng, class));
        }
        let enc = gen::encode_session(&greeting, &session);
        let len = enc.bytes.len();
        let cuts: Vec<usize> = if len <= 4096 {
            (0..=len).collect()
        } else {
            let mut c: Vec<usize> = Vec::new();
            for b in &enc.boundaries {
                for d in 0..=2usize {
                    c.push(b.saturating_sub(d));
                    c.push((b + d).min(len));
                }
            }
            for (s, e) in &enc.payload_ranges {
                c.extend_from_slice(&[*s, (*s + 1).min(len), e.saturating_sub(1), *e, (*e + 1).min(len)]);
            }
            for k in [4095usize, 4096, 4097, 8191, 8192, 8193, 16383, 16384, 16385] {
                if k + enc.greeting_len <= len {
                    c.push(k + enc.greeting_len);
                }
            }
            for _ in 0..400 {
                c.push(rng.urange(0, len));
            }
            c.sort_unstable();
            c.dedup();
            c
        };
        ctx.counters.add("cuts", cuts.len() as u64);
        ctx.counters.add("fault_fired.eof_at_offset", cuts.len() as u64);
        ctx.counters.bump("streams");
        if len <= 4096 {
            ctx.counters.bump("streams_with_every_cut");
        }
        // per stream: two fixed policies + one random policy
        let body_full = enc.bytes[enc.greeting_len..].to_vec();
        let (rseg, rname) = gen::gen_seg(&mut rng, &body_full);
        let policies: Vec<(Seg, String)> = vec![
            (gen::seg_whole(), "whole".into()),
            (gen::seg_bytewise(), "bytewise".into()),
            (rseg, rname.to_string()),
        ];
        let pending = gen::gen_pending(&mut rng);
        for cut in cuts {
            let region = if cut >= len { "end" } else { region_at(&enc, cut) };
            ctx.counters.bump(&format!("cut_region.{}", region));
            for (seg, name) in &policies {
                if name == "bytewise" && len > 2048 && cut % 7 != 0 {
                    continue;
                }
                for fl in all_flavours() {
                    let case = WireCase {
                        source: Source::Session {
                            greeting: greeting.clone(),
                            session: session.clone(),
                            cut: Some(cut),
                            fault: None,
                        },
                        seg: seg.clone(),
                        seg_name: name.clone(),
                        pending: if fl == Flavour::Async {
                            pending.clone()
                        } else {
                            vec![0]
                        },
                        flavour: fl,
                    error_at: None,
                    send_between: false,
                    silent: false,
                    via_command: false,
                    };
                    ctx.about_to_eval(&case);
                    let ev = eval_c10(&case);
                    if ctx.want_sample() && region == "payload" {
                        ctx.sample(sample_json(&case, 0));
                    }
                    ctx.record(&case, ev, known);
                }
            }
        }
        // one transient read failure, caller keeps receiving
        for _ in 0..4 {
            let cut = if rng.chance(1, 3) { len } else { rng.urange(greeting.len(), len) };
            let (seg, name) = rng.pick(&policies).clone();
            for fl in all_flavours() {
                let mut case = WireCase {
                    source: Source::Session {
                        greeting: greeting.clone(),
                        session: session.clone(),
                        cut: Some(cut),
                        fault: None,
                    },
                    seg: seg.clone(),
                    seg_name: name.clone(),
                    pending: if fl == Flavour::Async { pending.clone() } else { vec![0] },
                    flavour: fl,
                    error_at: None,
                    send_between: false,
                    silent: false,
                    via_command: false,
                };
                // how many reads does the undisturbed run take?
                let reads = run_case(&case, &case.materialize(), 0).reads;
                let at = match rng.below(4) {
                    0 => reads.saturating_sub(1),
                    1 => reads.saturating_sub(2),
                    _ => rng.urange(0, reads),
                };
                let kind = *rng.pick(&["Interrupted", "WouldBlock", "TimedOut"]);
                case.error_at = Some((at, kind.to_string()));
                ctx.counters.bump(&format!("fault_fired.transient_{}", kind));
                ctx.about_to_eval(&case);
                let ev = eval_c10(&case);
                ctx.record(&case, ev, known);
            }
        }
    }
    fn eval(&self, case: &WireCase) -> Eval {
        eval_c10(case)
    }
    fn shrink(&self, case: &WireCase) -> Vec<WireCase> {
        // keep the cut meaningful: try shrinking the session, then moving the cut is implicit
        let mut v = shrink_wire(case);
        if let Source::Session {
            greeting,
            session,
            cut: Some(c),
            fault,
        } = &case.source
        {
            let enc = gen::encode_session(greeting, session);
            // alternative cuts in the same region class closer to the start
            let region = if *c >= enc.bytes.len() { "end" } else { region_at(&enc, *c) };
            for alt in 0..*c {
                if region_at(&enc, alt) == region {
                    let mut k = case.clone();
                    k.source = Source::Session {
                        greeting: greeting.clone(),
                        session: session.clone(),
                        cut: Some(alt),
                        fault: fault.clone(),
                    };
                    v.push(k);
                    break;
                }
            }
        }
        v
    }
    fn trace(&self, case: &WireCase) -> Vec<String> {
        trace_case(case, 1)
    }
    fn rule(&self) -> String {
        "crash point = end of stream at offset k; for every generated well-formed stream of at most \
         4 KiB EVERY k in 0..=len is executed (larger streams: every response boundary ±2, payload \
         edges, buffer-capacity offsets and 400 random offsets), each under three segmentation \
         policies and both connection flavours; expected outcome from the encoder's boundary table; \
         distinct = distinct (session shape, region class of the cut: greeting/key/separator/value/\
         line_lf/binhdr/payload/payload_lf/terminator/ack/boundary, segmentation policy, flavour)".into()
    }
    fn assumptions(&self) -> Vec<String> {
        vec![
            "a read boundary falls at the end of the greeting".into(),
            "after end of stream the transport keeps returning 0 bytes".into(),
        ]
    }
    fn components(&self) -> (Vec<String>, Vec<String>) {
        wire_components()
    }
    fn probes(&self) -> Vec<&'static str> {
        vec![
            "cut_region.greeting",
            "cut_region.boundary",
            "cut_region.payload",
            "cut_region.binhdr",
            "cut_region.terminator",
            "cut_region.key",
            "cut_region.value",
            "cut_region.ack",
        ]
    }
    fn fault_kinds(&self) -> Vec<&'static str> {
        vec!["eof_at_offset", "transient_Interrupted", "transient_WouldBlock", "transient_TimedOut"]
    }
}

// =============================================================================================
// C02

pub struct C02;

fn reference_case(case: &WireCase) -> WireCase {
    let mut r = case.clone();
    r.seg = gen::seg_whole();
    r.seg_name = "whole".into();
    r.pending = vec![0];
    r.flavour = Flavour::Blocking;
    r
}

fn eval_c02_with(case: &WireCase, m: &Material, reference: &Outcome) -> Eval {
    let o = run_case(case, m, 0);
    let mut ev = Eval {
        digest: outcome_digest(&o),
        ..Default::default()
    };
    let kind = match &case.source {
        Source::Session { cut, fault, .. } => match (cut, fault) {
            (None, None) => "wellformed".to_string(),
            (Some(_), None) => "truncated".to_string(),
            (_, Some(f)) => f.kind().to_string(),
        },
        Source::Raw { .. } => "raw".to_string(),
    };
    ev.signature = sig_of(&[
        &kind,
        size_bucket(m.stream.len()),
        &case.seg_name,
        &format!("{:?}", case.flavour),
        &format!("{:?}", std::mem::discriminant(&reference.terminal)),
        &reference.responses.len().min(8).to_string(),
    ]);
    ev.nontrivial = m.stream.len() > m.barrier.unwrap_or(0);
    ev.violation = (|| {
        if let Some(v) = crash_violation("C02", &o) {
            return Some(v);
        }
        if let Some(v) = crash_violation("C02", reference) {
            return Some(v);
        }
        if o.comparable() != reference.comparable() {
            let clause = if case.flavour == Flavour::Async && case.seg == gen::seg_whole() {
                "flavour_dependence"
            } else {
                "segmentation_dependence"
            };
            return Some(Violation::new(
                "C02",
                clause,
                format!(
                    "{:?}/{} gives [{}] but blocking/one-read gives [{}]",
                    case.flavour,
                    case.seg_name,
                    o.summary(),
                    reference.summary()
                ),
            ));
        }
        None
    })();
    ev
}

fn eval_c02(case: &WireCase) -> Eval {
    let m = case.materialize();
    let r = run_case(&reference_case(case), &m, 0);
    eval_c02_with(case, &m, &r)
}

impl Check for C02 {
    type Case = WireCase;
    fn id(&self) -> &'static str {
        "C02"
    }
    fn level(&self) -> &'static str {
        "exploration"
    }
    fn budget(&self, tier: Tier) -> (u64, Duration) {
        match tier {
            Tier::Quick => (8_000, Duration::from_secs(120)),
            Tier::Thorough => (u64::MAX, Duration::from_secs(600)),
        }
    }
    fn run_index(
        &self,
        seed: u64,
        index: u64,
        tier: Tier,
        ctx: &mut WorkerCtx<WireCase>,
        known: &KnownFindings,
    ) {
        let mut rng = Rng::new(mix(seed, "C02", index));
        // a quarter of the run indexes have a peer that stays connected and silent at the end
        // (reference and variants alike)
        let silent = Rng::new(mix(seed, "C02.silent", index)).chance(1, 4);
        if silent {
            ctx.counters.bump("silent_peer_streams");
        }
        // a third of the run indexes write a command before every receive (pipelining caller)
        let send_between = rng.chance(1, 3);
        // a sixth obtains every response through the `command()` / `command_list()` helpers
        // (reference and variants alike)
        let via_command = Rng::new(mix(seed, "C02.via_command", index)).chance(1, 6);
        if via_command {
            ctx.counters.bump("streams_read_through_command_helpers");
        }
        let class = gen::gen_class_with_huge(&mut rng);
        let greeting = gen::default_greeting();
        // stream kinds: well-formed, truncated, corrupted, raw soup
        let source = match rng.below(10) {
            0..=3 => Source::Session {
                greeting: greeting.clone(),
                session: if rng.chance(1, 60) {
                    ctx.counters.bump("long_history_sessions");
                    gen::gen_long_session(&mut rng)
                } else {
                    let mut s = gen::gen_session(&mut rng, class);
                    if class != SizeClass::Huge
                        && Rng::new(mix(seed, "C02.fit", index)).chance(1, 8)
                        && gen::fit_to_capacity(&mut Rng::new(mix(seed, "C02.fit2", index)), &mut s, greeting.len())
                    {
                        ctx.counters.bump("streams_ending_at_a_buffer_capacity");
                    }
                    s
                },
                cut: None,
                fault: None,
            },
            4 | 5 => {
                let session = gen::gen_session(&mut rng, class);
                let len = gen::encode_session(&greeting, &session).bytes.len();
                Source::Session {
                    greeting: greeting.clone(),
                    session,
                    cut: Some(rng.urange(greeting.len(), len)),
                    fault: None,
                }
            }
            6..=8 => {
                let session = gen::gen_session(&mut rng, class);
                let len = gen::encode_session(&greeting, &session).bytes.len();
                let mut f = gen::gen_fault(&mut rng, len);
                // keep the greeting intact (its variants belong to C18)
                f = match f {
                    WireFault::Truncate(o) => WireFault::Truncate(o.max(greeting.len())),
                    WireFault::Flip(o, b) => WireFault::Flip(o.max(greeting.len()), b),
                    WireFault::Insert(o, x) => WireFault::Insert(o.max(greeting.len()), x),
                    WireFault::Delete(o, l) => WireFault::Delete(o.max(greeting.len()), l),
                    WireFault::Duplicate(o, l) => WireFault::Duplicate(o.max(greeting.len()), l),
                };
                Source::Session {
                    greeting: greeting.clone(),
                    session,
                    cut: None,
                    fault: Some(f),
                }
            }
            _ => {
                let mut s = greeting.clone();
                s.extend_from_slice(&gen::gen_soup(&mut rng));
                Source::Raw { stream: s }
            }
        };
        let base = WireCase {
            source,
            seg: gen::seg_whole(),
            seg_name: "whole".into(),
            pending: vec![0],
            flavour: Flavour::Blocking,
            error_at: None,
            send_between: send_between && !via_command,
            silent,
            via_command,
        };
        ctx.about_to_eval(&base);
        let m = base.materialize();
        let reference = run_case(&base, &m, 0);
        let glen = m.barrier.unwrap_or(0);
        let body = m.stream[glen.min(m.stream.len())..].to_vec();
        if m.stream.len() > 4096 {
            ctx.counters.bump("stream_crosses_4096");
        }
        if m.stream.len() > 3 * 4096 {
            ctx.counters.bump("stream_crosses_two_doublings");
        }
        ctx.counters
            .bump(&format!("reference_terminal.{:?}", std::mem::discriminant(&reference.terminal)).replace("Discriminant", ""));
        let mut segs: Vec<(Seg, String)> = vec![
            (gen::seg_whole(), "whole".into()),
            (gen::seg_bytewise(), "bytewise".into()),
            (gen::seg_lines(&body), "lines".into()),
            (gen::seg_before_lf(&body), "before_lf".into()),
            (vec![2], "pairs".into()),
        ];
        for _ in 0..4 {
            let (s, n) = gen::gen_seg(&mut rng, &body);
            segs.push((s, n.to_string()));
        }
        let exhaustive_limit = match tier {
            Tier::Quick => 256,
            Tier::Thorough => 2048,
        };
        if body.len() > 1 && body.len() <= exhaustive_limit {
            ctx.counters.bump("streams_with_every_2way_split");
            for k in 1..body.len() {
                segs.push((gen::seg_split2(k), "split2".into()));
            }
        }
        if body.len() > 2 && body.len() <= 40 {
            ctx.counters.bump("streams_with_every_3way_split");
            for a in 1..body.len() - 1 {
                for b in a + 1..body.len() {
                    segs.push((gen::seg_from_cuts(&[a, b]), "split3".into()));
                }
            }
        }
        for (seg, name) in segs {
            if class == SizeClass::Huge && !gen::coarse_only(&name) {
                continue;
            }
            for fl in all_flavours() {
                if fl == Flavour::Blocking && name == "whole" {
                    continue; // the reference itself
                }
                let mut case = base.clone();
                case.seg = seg.clone();
                case.seg_name = name.clone();
                case.flavour = fl;
                case.pending = if fl == Flavour::Async {
                    gen::gen_pending(&mut rng)
                } else {
                    vec![0]
                };
                ctx.about_to_eval(&case);
                let ev = eval_c02_with(&case, &m, &reference);
                ctx.counters.bump(&format!("seg.{}", name));
                if ctx.want_sample() && name == "random" && reference.responses.len() >= 1 {
                    ctx.sample(sample_json(&case, 0));
                }
                ctx.record(&case, ev, known);
            }
        }
    }
    fn eval(&self, case: &WireCase) -> Eval {
        eval_c02(case)
    }
    fn shrink(&self, case: &WireCase) -> Vec<WireCase> {
        // never shrink to the reference configuration itself
        shrink_wire(case)
            .into_iter()
            .filter(|c| !(c.flavour == Flavour::Blocking && c.seg == gen::seg_whole()))
            .collect()
    }
    fn trace(&self, case: &WireCase) -> Vec<String> {
        let mut t = trace_case(case, 0);
        let r = reference_case(case);
        let m = r.materialize();
        t.push(format!(
            "reference (blocking, one read after the greeting): {}",
            run_case(&r, &m, 0).summary()
        ));
        t
    }
    fn rule(&self) -> String {
        "metamorphic: one evaluation = one (byte stream, segmentation, flavour) whose outcome sequence \
         [responses…, terminal] must equal that of the blocking connection fed the same bytes in one \
         read after the greeting; streams are well-formed sessions, their truncations, sessions hit by \
         flip/insert/delete/duplicate faults and token soup, from a few bytes to > 4096·2^3; every \
         2-way split is executed for streams up to 256 B (quick) / 2 KiB (thorough) and every 3-way \
         split for bodies up to 40 B; distinct = \
         distinct (stream kind, size bucket, segmentation policy, flavour, reference terminal kind, \
         response count ≤ 8); non-trivial = stream has bytes after the greeting".into()
    }
    fn assumptions(&self) -> Vec<String> {
        vec!["a read boundary falls at the end of the greeting (bytes sharing a read with the greeting are discarded by both flavours; unreachable with a protocol-abiding server)".into()]
    }
    fn components(&self) -> (Vec<String>, Vec<String>) {
        wire_components()
    }
    fn probes(&self) -> Vec<&'static str> {
        vec![
            "stream_crosses_4096",
            "stream_crosses_two_doublings",
            "streams_with_every_2way_split",
        ]
    }
    fn fault_kinds(&self) -> Vec<&'static str> {
        vec![]
    }
}

// =============================================================================================
// C09

pub struct C09;

const C09_EXTRA: usize = 2;

/// How an operation that needs more bytes than the peer sent ends: an unexpected end of stream,
/// or — with a peer that stays connected and silent — by waiting.
fn end_of_input(silent: bool) -> Terminal {
    if silent {
        Terminal::Starved
    } else {
        Terminal::UnexpectedEof
    }
}

fn eval_c09(case: &WireCase) -> Eval {
    let m = case.materialize();
    let base = alloc::begin();
    let o = run_case(case, &m, C09_EXTRA);
    let (peak, largest) = alloc::end(base);
    let mut ev = Eval {
        digest: outcome_digest(&o),
        ..Default::default()
    };
    let glen = m.barrier.unwrap_or(m.stream.len());
    let body = &m.stream[glen.min(m.stream.len())..];
    let sc = scan::scan(body);
    let trailer_kind = match &sc.trailer {
        scan::Trailer::Clean => "clean",
        scan::Trailer::Reject(_) => "reject",
        scan::Trailer::PartialValid => "partial_valid",
        scan::Trailer::PartialEither => "partial_either",
    };
    let kind = match &case.source {
        Source::Session { cut, fault, .. } => match (cut, fault) {
            (None, None) => "wellformed".to_string(),
            (Some(_), None) => "truncated".to_string(),
            (_, Some(f)) => f.kind().to_string(),
        },
        Source::Raw { .. } => "raw".to_string(),
    };
    ev.signature = sig_of(&[
        &kind,
        trailer_kind,
        &sc.responses.len().min(6).to_string(),
        &format!("{:?}", std::mem::discriminant(&o.terminal)),
        &format!("{:?}", o.connect.is_ok()),
        &case.seg_name,
        &format!("{:?}", case.flavour),
    ]);
    ev.nontrivial = !body.is_empty() || o.connect.is_err();
    ev.violation = (|| {
        // P1/P2: no panic, bounded reads/polls — including the retrying receives
        if let Some(v) = crash_violation("C09", &o) {
            let retry = !matches!(
                o.terminal,
                Terminal::Panic(_) | Terminal::ReadBudget(_) | Terminal::PollBudget
            ) && o.connect.is_ok();
            return Some(if retry {
                v.tag("on_retry_after_terminal")
                    .tag(format!("terminal={:?}", o.terminal))
                    .tag(format!("flavour={:?}", case.flavour))
            } else {
                v
            });
        }
        // P3: bounded memory
        let limit = 64 * 1024 * 1024 + 8 * m.stream.len();
        if peak > limit {
            return Some(Violation::new(
                "C09",
                "memory",
                format!(
                    "peak heap use {} bytes (largest single request {}) for a {}-byte stream",
                    peak,
                    largest,
                    m.stream.len()
                ),
            ));
        }
        // greeting verdict
        match scan::greeting_verdict(&m.stream) {
            GreetingVerdict::Valid(v) => {
                if o.connect != Ok(v.clone()) {
                    return Some(Violation::new(
                        "C09",
                        "greeting",
                        format!("valid greeting but connect returned {:?}", o.connect),
                    ));
                }
            }
            GreetingVerdict::Invalid => {
                if o.connect != Err(Terminal::Invalid) {
                    return Some(Violation::new(
                        "C09",
                        "greeting",
                        format!("malformed greeting but connect returned {:?}", o.connect),
                    ));
                }
                return None;
            }
            GreetingVerdict::Eof => {
                if o.connect != Err(end_of_input(case.silent)) {
                    return Some(Violation::new(
                        "C09",
                        "greeting",
                        format!("unterminated greeting but connect returned {:?}", o.connect),
                    ));
                }
                return None;
            }
            GreetingVerdict::EofOrInvalid => {
                if o.connect != Err(end_of_input(case.silent)) && o.connect != Err(Terminal::Invalid)
                {
                    return Some(Violation::new(
                        "C09",
                        "greeting",
                        format!(
                            "unterminated malformed greeting but connect returned {:?}",
                            o.connect
                        ),
                    ));
                }
                return None;
            }
        }
        // P4: nothing fabricated, malformed lines rejected
        if let Err(d) = scan::check_against_scan(&sc, &o, case.silent) {
            return Some(Violation::new("C09", "fabricated_or_unrejected", d));
        }
        None
    })();
    ev
}

impl Check for C09 {
    type Case = WireCase;
    fn id(&self) -> &'static str {
        "C09"
    }
    fn level(&self) -> &'static str {
        "exploration"
    }
    fn budget(&self, tier: Tier) -> (u64, Duration) {
        match tier {
            Tier::Quick => (20_000, Duration::from_secs(120)),
            Tier::Thorough => (u64::MAX, Duration::from_secs(600)),
        }
    }
    fn run_index(
        &self,
        seed: u64,
        index: u64,
        _tier: Tier,
        ctx: &mut WorkerCtx<WireCase>,
        known: &KnownFindings,
    ) {
        let mut rng = Rng::new(mix(seed, "C09", index));
        // a quarter of the run indexes have a peer that stays connected and silent at the end
        let silent = Rng::new(mix(seed, "C09.silent", index)).chance(1, 4);
        if silent {
            ctx.counters.bump("silent_peer_streams");
        }
        // a third of the run indexes write a command before every receive (pipelining caller)
        let send_between = rng.chance(1, 3);
        let greeting = gen::default_greeting();
        let corpus = gen::edge_corpus();
        let mut sweep_all_offsets: Option<(Vec<AbsResp>, usize)> = None;
        let source = if (index as usize) < corpus.len() {
            ctx.counters.bump("kind.edge_corpus");
            let mut s = greeting.clone();
            s.extend_from_slice(&corpus[index as usize]);
            Source::Raw { stream: s }
        } else {
            match rng.below(10) {
                0 | 1 => {
                    ctx.counters.bump("kind.uniform_or_soup");
                    // sometimes without any valid greeting at all
                    let mut s = if rng.chance(1, 6) {
                        Vec::new()
                    } else {
                        greeting.clone()
                    };
                    s.extend_from_slice(&gen::gen_soup(&mut rng));
                    Source::Raw { stream: s }
                }
                9 => {
                    ctx.counters.bump("kind.wellformed");
                    let class = gen::gen_class_with_huge(&mut rng);
                    Source::Session {
                        greeting: greeting.clone(),
                        session: gen::gen_session(&mut rng, class),
                        cut: None,
                        fault: None,
                    }
                }
                2 => {
                    ctx.counters.bump("kind.soup_after_valid_prefix");
                    let class = gen::gen_class(&mut rng);
                    let session = gen::gen_session(&mut rng, class);
                    let mut s = gen::encode_session(&greeting, &session).bytes;
                    s.extend_from_slice(&gen::gen_soup(&mut rng));
                    Source::Raw { stream: s }
                }
                3 => {
                    // small stream: sweep a fault kind over every offset below
                    let session = vec![gen::gen_resp(&mut rng, SizeClass::Tiny)];
                    let len = gen::encode_session(&greeting, &session).bytes.len();
                    sweep_all_offsets = Some((session.clone(), len));
                    Source::Session {
                        greeting: greeting.clone(),
                        session,
                        cut: None,
                        fault: None,
                    }
                }
                _ => {
                    let class = gen::gen_class(&mut rng);
                    let session = gen::gen_session(&mut rng, class);
                    let len = gen::encode_session(&greeting, &session).bytes.len();
                    let f = gen::gen_fault(&mut rng, len);
                    ctx.counters.bump(&format!("fault_fired.{}", f.kind()));
                    Source::Session {
                        greeting: greeting.clone(),
                        session,
                        cut: None,
                        fault: Some(f),
                    }
                }
            }
        };
        let mut sources = vec![source];
        if let Some((session, len)) = sweep_all_offsets {
            ctx.counters.bump("kind.fault_swept_over_every_offset");
            let kind = rng.below(4);
            let ins = gen::gen_insert_bytes(&mut rng);
            let bit = rng.below(8) as u8;
            for off in 0..len.min(400) {
                let f = match kind {
                    0 => WireFault::Flip(off, bit),
                    1 => WireFault::Insert(off, ins.clone()),
                    2 => WireFault::Delete(off, 1),
                    _ => WireFault::Truncate(off),
                };
                ctx.counters.bump(&format!("fault_fired.{}", f.kind()));
                sources.push(Source::Session {
                    greeting: greeting.clone(),
                    session: session.clone(),
                    cut: None,
                    fault: Some(f),
                });
            }
        }
        for source in sources {
            let probe = WireCase {
                source: source.clone(),
                seg: gen::seg_whole(),
                seg_name: "whole".into(),
                pending: vec![0],
                flavour: Flavour::Blocking,
                error_at: None,
                    send_between: false,
                    silent: false,
                    via_command: false,
            };
            let m = probe.materialize();
            let glen = m.barrier.unwrap_or(m.stream.len());
            let body = m.stream[glen.min(m.stream.len())..].to_vec();
            let mut segs: Vec<(Seg, String)> = vec![
                (gen::seg_whole(), "whole".into()),
                (gen::seg_bytewise(), "bytewise".into()),
            ];
            let (s, n) = gen::gen_seg(&mut rng, &body);
            segs.push((s, n.to_string()));
            for (seg, name) in segs {
                // megabyte streams only in coarse segments (a bytewise pass costs minutes)
                if m.stream.len() > 512 * 1024 && !gen::coarse_only(&name) {
                    continue;
                }
                for fl in all_flavours() {
                    let case = WireCase {
                        source: source.clone(),
                        seg: seg.clone(),
                        seg_name: name.clone(),
                        pending: if fl == Flavour::Async {
                            gen::gen_pending(&mut rng)
                        } else {
                            vec![0]
                        },
                        flavour: fl,
                        error_at: None,
                        send_between,
                        silent,
                        via_command: false,
                    };
                    ctx.about_to_eval(&case);
                    let ev = eval_c09(&case);
                    // cross-check of the two independent reference components: what the encoder
                    // says it encoded must be what the scanner reads out of the bytes
                    if let Source::Session { session, cut: None, fault: None, .. } = &case.source {
                        if name == "whole" && fl == Flavour::Blocking {
                            let glen = m.barrier.unwrap_or(0);
                            let sc = scan::scan(&m.stream[glen..]);
                            let agree = sc.trailer == scan::Trailer::Clean
                                && sc.responses.len() == session.len()
                                && sc
                                    .responses
                                    .iter()
                                    .zip(session.iter())
                                    .all(|(a, b)| a.literal() == Some(b.canon()));
                            ctx.counters.add("HARNESS_ERROR.scanner_disagrees_with_encoder", if agree { 0 } else { 1 });
                            ctx.counters.bump("scanner_encoder_cross_checks");
                        }
                    }
                    if ctx.want_sample() && index % 11 == 3 {
                        ctx.sample(sample_json(&case, C09_EXTRA));
                    }
                    ctx.record(&case, ev, known);
                }
            }
        }
    }
    fn eval(&self, case: &WireCase) -> Eval {
        eval_c09(case)
    }
    fn shrink(&self, case: &WireCase) -> Vec<WireCase> {
        // turn a session+fault case into explicit bytes first: then bytes can be removed freely
        let mut v = Vec::new();
        if let Source::Session { .. } = &case.source {
            let m = case.materialize();
            let mut c = case.clone();
            c.source = Source::Raw { stream: m.stream };
            v.push(c);
        }
        v.extend(shrink_wire(case));
        v
    }
    fn trace(&self, case: &WireCase) -> Vec<String> {
        let mut t = trace_case(case, C09_EXTRA);
        let m = case.materialize();
        let glen = m.barrier.unwrap_or(m.stream.len());
        let sc = scan::scan(&m.stream[glen.min(m.stream.len())..]);
        t.push(format!(
            "reference scan: {} complete responses, trailer {:?}",
            sc.responses.len(),
            sc.trailer
        ));
        t
    }
    fn rule(&self) -> String {
        "one evaluation = one (byte stream, segmentation, flavour): connect, receive until the first \
         terminal outcome, then two further receives (retrying caller). Streams: a fixed corpus of \
         numeric/structural edge cases, uniform bytes and protocol-token soup (with and without a \
         valid greeting), well-formed sessions followed by soup, well-formed sessions hit by one \
         transport fault (truncate/flip/insert/delete/duplicate) at a random offset, and small \
         sessions with one fault kind swept over EVERY offset. Checked: no panic, read/poll budget, \
         heap peak, greeting verdict, and the outcome against the reference line scanner \
         (must-accept / must-reject / either). distinct = distinct (stream kind, scanner trailer \
         class, complete-response count ≤ 6, terminal kind, connect ok?, segmentation policy, \
         flavour)".into()
    }
    fn assumptions(&self) -> Vec<String> {
        vec![
            "a read boundary falls at the end of the first line (greeting causality)".into(),
            "grey-zone lines (numeric token overflowing in 'binary:', key outside [A-Za-z_-] with a ': ' separator, 'binary: <non-number>', unterminated already-malformed last fragment) may be decoded literally or rejected".into(),
            "heap bound: peak <= 64 MiB + 8 x stream length, per-thread counting allocator".into(),
        ]
    }
    fn components(&self) -> (Vec<String>, Vec<String>) {
        wire_components()
    }
    fn probes(&self) -> Vec<&'static str> {
        vec![
            "kind.edge_corpus",
            "kind.uniform_or_soup",
            "kind.fault_swept_over_every_offset",
        ]
    }
    fn fault_kinds(&self) -> Vec<&'static str> {
        vec!["truncate", "flip", "insert", "delete", "duplicate"]
    }
}

// =============================================================================================
// C18 (a): greeting, both flavours

pub fn gen_greeting_stream(rng: &mut Rng) -> (Vec<u8>, &'static str) {
    let version = if rng.chance(1, 300) {
        gen::gen_version_giant(rng)
    } else {
        gen::gen_version(rng)
    };
    match rng.below(12) {
        0..=4 => (gen::valid_greeting(&version), "valid"),
        5 => {
            // wrong prefix at one position
            let mut g = gen::valid_greeting(&version);
            let p = rng.usize_below(7);
            g[p] = *rng.pick(&[b'X', b'o', b' ', b'\0', b'k', b'\xff']);
            if g.starts_with(b"OK MPD ") {
                g[0] = b'o';
            }
            (g, "wrong_prefix")
        }
        6 => (b"OK MPD \n".to_vec(), "empty_version"),
        7 => {
            let mut g = b"OK MPD ".to_vec();
            let bad: &[u8] = *rng.pick(&[&b"\xff"[..], b"0.2\xc3", b"\xe2\x82", b"a\xffb"]);
            g.extend_from_slice(bad);
            g.push(b'\n');
            (g, "invalid_utf8")
        }
        8 => {
            // unterminated: prefix of a valid greeting
            let g = gen::valid_greeting(&version);
            let k = rng.usize_below(g.len());
            (g[..k].to_vec(), "unterminated_valid_prefix")
        }
        9 => {
            let mut g = (*rng.pick(&[&b"foobar"[..], b"OK MPX 1", b"ACK [", b"\xff\xfe"])).to_vec();
            if rng.chance(1, 2) {
                g.push(b'\n');
                (g, "garbage_line")
            } else {
                (g, "unterminated_malformed")
            }
        }
        10 => (
            (*rng.pick(&[&b"OK\n"[..], b"\n", b"OK MPD\n", b"OK  MPD 1\n", b"ok mpd 1\n"])).to_vec(),
            "near_miss",
        ),
        _ => (Vec::new(), "empty_stream"),
    }
}

pub fn eval_greeting(case: &WireCase) -> Eval {
    let m = case.materialize();
    let o = run_case(case, &m, 0);
    let mut ev = Eval {
        digest: outcome_digest(&o),
        ..Default::default()
    };
    let verdict = scan::greeting_verdict(&m.stream);
    ev.signature = sig_of(&[
        &format!("{:?}", std::mem::discriminant(&verdict)),
        size_bucket(m.stream.len()),
        &case.seg_name,
        &format!("{:?}", case.flavour),
    ]);
    ev.nontrivial = true;
    ev.violation = (|| {
        if let Some(v) = crash_violation("C18", &o) {
            return Some(v);
        }
        let ok = match &verdict {
            GreetingVerdict::Valid(v) => o.connect == Ok(v.clone()),
            GreetingVerdict::Invalid => o.connect == Err(Terminal::Invalid),
            GreetingVerdict::Eof => o.connect == Err(end_of_input(case.silent)),
            GreetingVerdict::EofOrInvalid => {
                o.connect == Err(end_of_input(case.silent)) || o.connect == Err(Terminal::Invalid)
            }
        };
        if ok {
            None
        } else {
            let clause = match &verdict {
                GreetingVerdict::Valid(_) => "valid_greeting_not_accepted_verbatim",
                GreetingVerdict::Invalid => "malformed_greeting_not_invalid_message",
                _ => "unterminated_greeting_not_eof",
            };
            Some(Violation::new(
                "C18",
                clause,
                format!(
                    "greeting {:?} (reference verdict {:?}) but connect returned {:?}",
                    show_bytes(&m.stream, 80),
                    verdict,
                    o.connect
                ),
            ))
        }
    })();
    ev
}

/// Generate and evaluate the greeting cases of one run index.
pub fn run_greeting_index<C: Clone + serde::Serialize>(
    rng: &mut Rng,
    ctx: &mut WorkerCtx<C>,
    known: &KnownFindings,
    wrap: impl Fn(WireCase) -> C,
) {
    let (stream, kind) = gen_greeting_stream(rng);
    ctx.counters.bump(&format!("greeting.{}", kind));
    // a third of the greetings come from a peer that stays connected and silent afterwards
    // (decided from the bytes, so that the run's other random choices are unaffected)
    let silent = {
        let mut h = Fnv::new();
        h.write(&stream);
        h.finish() % 3 == 0
    };
    if silent {
        ctx.counters.bump("silent_peer_streams");
    }
    if stream.len() > 4096 {
        ctx.counters.bump("greeting_longer_than_4096");
    }
    if stream.len() > 8192 {
        ctx.counters.bump("greeting_longer_than_8192");
    }
    let mut segs: Vec<(Seg, String)> = vec![
        (gen::seg_whole(), "whole".into()),
        (gen::seg_bytewise(), "bytewise".into()),
        (gen::seg_pattern(rng), "pattern".into()),
    ];
    if stream.len() > 32 * 1024 {
        // connect re-parses the whole line on every read: only coarse segmentations
        ctx.counters.bump("greeting_longer_than_32k");
        segs = vec![
            (gen::seg_whole(), "whole".into()),
            (vec![16384], "16k".into()),
            (vec![65536, 1460], "64k_then_mtu".into()),
        ];
        if stream.len() > 256 * 1024 {
            segs.truncate(2);
            segs[1] = (vec![262_144], "256k".into());
        }
    }
    if stream.len() <= 64 {
        for k in 1..stream.len() {
            segs.push((gen::seg_split2(k), "split2".into()));
        }
    } else {
        for _ in 0..6 {
            segs.push((gen::seg_split2(rng.urange(1, stream.len() - 1)), "split2".into()));
        }
        if stream.len() <= 32 * 1024 {
            segs.push((gen::seg_straddle(rng), "straddle".into()));
        }
    }
    for (seg, name) in segs {
        for fl in all_flavours() {
            let case = WireCase {
                source: Source::Raw {
                    stream: stream.clone(),
                },
                seg: seg.clone(),
                seg_name: name.clone(),
                pending: if fl == Flavour::Async {
                    gen::gen_pending(rng)
                } else {
                    vec![0]
                },
                flavour: fl,
                error_at: None,
                send_between: false,
                silent,
                via_command: false,
            };
            ctx.about_to_eval(&wrap(case.clone()));
            let ev = eval_greeting(&case);
            if ctx.want_sample() && kind == "valid" && name == "pattern" {
                ctx.sample(sample_json(&case, 0));
            }
            ctx.record(&wrap(case), ev, known);
        }
    }
}

pub fn shrink_greeting(case: &WireCase) -> Vec<WireCase> {
    shrink_wire(case)
}

pub fn trace_greeting(case: &WireCase) -> Vec<String> {
    let mut t = trace_case(case, 0);
    let m = case.materialize();
    t.push(format!(
        "reference verdict: {:?}",
        scan::greeting_verdict(&m.stream)
    ));
    t
}
