//! Harness-side canonical forms of everything the library returns. Values are compared in this
//! form only, never through `Debug` strings of library types.

use mpd_protocol::response::{Error as RespError, Frame, Response};
use mpd_protocol::MpdProtocolError;
use serde::{Deserialize, Serialize};

#[derive(Clone, Debug, PartialEq, Eq, Serialize, Deserialize, Default)]
pub struct CFrame {
    pub fields: Vec<(String, String)>,
    #[serde(with = "opt_bytes")]
    pub binary: Option<Vec<u8>>,
}

#[derive(Clone, Debug, PartialEq, Eq, Serialize, Deserialize)]
pub struct CErr {
    pub code: u64,
    pub index: u64,
    pub command: Option<String>,
    pub message: String,
}

#[derive(Clone, Debug, PartialEq, Eq, Serialize, Deserialize, Default)]
pub struct CResp {
    pub frames: Vec<CFrame>,
    pub error: Option<CErr>,
}

/// How a connection (or a run of receives) ended.
#[derive(Clone, Debug, PartialEq, Eq, Serialize, Deserialize)]
pub enum Terminal {
    CleanEof,
    UnexpectedEof,
    Invalid,
    Io(String),
    Panic(String),
    /// The reader's progress budget was exceeded (spin / hang / zero-length read).
    ReadBudget(String),
    /// The mini executor's poll budget was exceeded (lost wake-up or spin).
    PollBudget,
    /// The harness stopped asking (response limit).
    Limit,
    /// The peer stays connected and silent, and the operation waits for bytes that never come
    /// (only with a `silent` peer; the expected end of such a run once everything was delivered).
    Starved,
}

pub fn cframe(f: &Frame) -> CFrame {
    CFrame {
        fields: f
            .fields()
            .map(|(k, v)| (k.to_string(), v.to_string()))
            .collect(),
        binary: f.binary().map(|b| b.to_vec()),
    }
}

pub fn cerr(e: &RespError) -> CErr {
    CErr {
        code: e.code,
        index: e.command_index,
        command: e.current_command.as_ref().map(|c| c.to_string()),
        message: e.message.to_string(),
    }
}

pub fn cresp(r: &Response) -> CResp {
    let mut out = CResp::default();
    for item in r.frames() {
        match item {
            Ok(f) => out.frames.push(cframe(f)),
            Err(e) => out.error = Some(cerr(e)),
        }
    }
    out
}

pub fn terminal_of(e: &MpdProtocolError) -> Terminal {
    match e {
        MpdProtocolError::InvalidMessage => Terminal::Invalid,
        MpdProtocolError::Io(io) => {
            if io.kind() == std::io::ErrorKind::UnexpectedEof {
                Terminal::UnexpectedEof
            } else {
                Terminal::Io(format!("{:?}", io.kind()))
            }
        }
    }
}

impl CFrame {
    pub fn summary(&self) -> String {
        let mut s = String::new();
        for (i, (k, v)) in self.fields.iter().enumerate() {
            if i > 0 {
                s.push_str(", ");
            }
            if i >= 4 {
                s.push_str(&format!("… +{} fields", self.fields.len() - i));
                break;
            }
            s.push_str(&format!("{}={}", k, clip(v, 24)));
        }
        if let Some(b) = &self.binary {
            s.push_str(&format!(" <bin {}B>", b.len()));
        }
        format!("{{{}}}", s)
    }
}

impl CResp {
    pub fn summary(&self) -> String {
        let mut s = String::from("[");
        for (i, f) in self.frames.iter().enumerate() {
            if i > 0 {
                s.push(' ');
            }
            if i >= 3 {
                s.push_str(&format!("… +{} frames", self.frames.len() - i));
                break;
            }
            s.push_str(&f.summary());
        }
        if let Some(e) = &self.error {
            s.push_str(&format!(
                " ACK[{}@{}]{{{}}} {}",
                e.code,
                e.index,
                e.command.as_deref().unwrap_or(""),
                clip(&e.message, 32)
            ));
        }
        s.push(']');
        s
    }
}

pub fn clip(s: &str, n: usize) -> String {
    if s.chars().count() <= n {
        s.to_string()
    } else {
        let head: String = s.chars().take(n).collect();
        format!("{}…({}B)", head, s.len())
    }
}

/// Printable rendering of bytes for traces / replay files.
pub fn show_bytes(b: &[u8], max: usize) -> String {
    let mut s = String::new();
    for &c in b.iter().take(max) {
        match c {
            b'\n' => s.push_str("\\n"),
            b'\r' => s.push_str("\\r"),
            b'\\' => s.push_str("\\\\"),
            0x20..=0x7e => s.push(c as char),
            _ => s.push_str(&format!("\\x{:02x}", c)),
        }
    }
    if b.len() > max {
        s.push_str(&format!("…(+{}B)", b.len() - max));
    }
    s
}

mod opt_bytes {
    use serde::{Deserialize, Deserializer, Serialize, Serializer};

    pub fn serialize<S: Serializer>(v: &Option<Vec<u8>>, s: S) -> Result<S::Ok, S::Error> {
        v.as_ref().map(|b| super::hex(b)).serialize(s)
    }

    pub fn deserialize<'de, D: Deserializer<'de>>(d: D) -> Result<Option<Vec<u8>>, D::Error> {
        let o: Option<String> = Option::deserialize(d)?;
        match o {
            None => Ok(None),
            Some(h) => super::unhex(&h)
                .map(Some)
                .ok_or_else(|| serde::de::Error::custom("bad hex")),
        }
    }
}

pub fn hex(b: &[u8]) -> String {
    let mut s = String::with_capacity(b.len() * 2);
    for c in b {
        s.push_str(&format!("{:02x}", c));
    }
    s
}

pub fn unhex(s: &str) -> Option<Vec<u8>> {
    if s.len() % 2 != 0 {
        return None;
    }
    let mut out = Vec::with_capacity(s.len() / 2);
    let b = s.as_bytes();
    for i in (0..b.len()).step_by(2) {
        let h = (b[i] as char).to_digit(16)?;
        let l = (b[i + 1] as char).to_digit(16)?;
        out.push((h * 16 + l) as u8);
    }
    Some(out)
}

/// serde helper for `Vec<u8>` as hex strings.
pub mod hex_bytes {
    use serde::{Deserialize, Deserializer, Serializer};

    pub fn serialize<S: Serializer>(v: &Vec<u8>, s: S) -> Result<S::Ok, S::Error> {
        s.serialize_str(&super::hex(v))
    }

    pub fn deserialize<'de, D: Deserializer<'de>>(d: D) -> Result<Vec<u8>, D::Error> {
        let h = String::deserialize(d)?;
        super::unhex(&h).ok_or_else(|| serde::de::Error::custom("bad hex"))
    }
}
