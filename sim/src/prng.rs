//! Hand-written SplitMix64 / xoshiro256** PRNG. Every random choice of the simulator comes from
//! here, and only while a *plan* is being generated — never during execution of a plan.

#[derive(Clone, Debug)]
pub struct Rng {
    s: [u64; 4],
}

pub fn splitmix(x: &mut u64) -> u64 {
    *x = x.wrapping_add(0x9E37_79B9_7F4A_7C15);
    let mut z = *x;
    z = (z ^ (z >> 30)).wrapping_mul(0xBF58_476D_1CE4_E5B9);
    z = (z ^ (z >> 27)).wrapping_mul(0x94D0_49BB_1331_11EB);
    z ^ (z >> 31)
}

/// Derive the seed of run `index` of the batch for `property` from the batch seed.
pub fn mix(batch_seed: u64, property: &str, index: u64) -> u64 {
    let mut h: u64 = 0xcbf2_9ce4_8422_2325 ^ batch_seed;
    for b in property.bytes() {
        h ^= b as u64;
        h = h.wrapping_mul(0x0000_0100_0000_01B3);
    }
    h ^= index.wrapping_mul(0x9E37_79B9_7F4A_7C15);
    let mut x = h;
    splitmix(&mut x)
}

impl Rng {
    pub fn new(seed: u64) -> Rng {
        let mut x = seed;
        let s = [
            splitmix(&mut x),
            splitmix(&mut x),
            splitmix(&mut x),
            splitmix(&mut x),
        ];
        Rng { s }
    }

    pub fn next_u64(&mut self) -> u64 {
        let result = self.s[1].wrapping_mul(5).rotate_left(7).wrapping_mul(9);
        let t = self.s[1] << 17;
        self.s[2] ^= self.s[0];
        self.s[3] ^= self.s[1];
        self.s[1] ^= self.s[2];
        self.s[0] ^= self.s[3];
        self.s[2] ^= t;
        self.s[3] = self.s[3].rotate_left(45);
        result
    }

    /// Uniform in `0..n` (n > 0).
    pub fn below(&mut self, n: u64) -> u64 {
        debug_assert!(n > 0);
        // multiply-shift; bias is irrelevant for our purposes
        ((self.next_u64() as u128 * n as u128) >> 64) as u64
    }

    pub fn usize_below(&mut self, n: usize) -> usize {
        self.below(n as u64) as usize
    }

    /// Uniform in `lo..=hi`.
    pub fn range(&mut self, lo: u64, hi: u64) -> u64 {
        debug_assert!(lo <= hi);
        lo + self.below(hi - lo + 1)
    }

    pub fn urange(&mut self, lo: usize, hi: usize) -> usize {
        self.range(lo as u64, hi as u64) as usize
    }

    /// True with probability num/den.
    pub fn chance(&mut self, num: u64, den: u64) -> bool {
        self.below(den) < num
    }

    pub fn pick<'a, T>(&mut self, items: &'a [T]) -> &'a T {
        &items[self.usize_below(items.len())]
    }

    pub fn pick_weighted<'a, T>(&mut self, items: &'a [(u32, T)]) -> &'a T {
        let total: u64 = items.iter().map(|(w, _)| *w as u64).sum();
        let mut x = self.below(total);
        for (w, t) in items {
            if x < *w as u64 {
                return t;
            }
            x -= *w as u64;
        }
        unreachable!()
    }

    pub fn bytes(&mut self, n: usize) -> Vec<u8> {
        let mut v = Vec::with_capacity(n);
        while v.len() < n {
            let x = self.next_u64().to_le_bytes();
            let take = (n - v.len()).min(8);
            v.extend_from_slice(&x[..take]);
        }
        v
    }

    pub fn fork(&mut self) -> Rng {
        Rng::new(self.next_u64())
    }
}

/// FNV-1a 64 digest, used for event-log identities and signatures.
#[derive(Clone, Copy, Debug)]
pub struct Fnv(pub u64);

impl Default for Fnv {
    fn default() -> Self {
        Fnv(0xcbf2_9ce4_8422_2325)
    }
}

impl Fnv {
    pub fn new() -> Fnv {
        Fnv::default()
    }
    pub fn write(&mut self, bytes: &[u8]) {
        for b in bytes {
            self.0 ^= *b as u64;
            self.0 = self.0.wrapping_mul(0x0000_0100_0000_01B3);
        }
    }
    pub fn write_u64(&mut self, x: u64) {
        self.write(&x.to_le_bytes());
    }
    pub fn write_str(&mut self, s: &str) {
        self.write(s.as_bytes());
        self.write(&[0xff]);
    }
    pub fn finish(&self) -> u64 {
        self.0
    }
}
