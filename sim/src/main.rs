//! `mpdsim` — deterministic simulation harness for elomatreb/mpd_client (see /verif/DESIGN.md).

mod alloc;
mod canon;
mod framework;
mod panics;
mod prng;
mod wire;

use framework::{Options, ReplayFile, Tier};

#[global_allocator]
static GLOBAL: alloc::Counting = alloc::Counting;

fn usage() -> ! {
    eprintln!(
        "usage: mpdsim check <ID> [--tier quick|thorough]\n       mpdsim replay <file> [--quiet] [--strict]\n       mpdsim list"
    );
    std::process::exit(2);
}

macro_rules! dispatch {
    ($id:expr, $f:ident $(, $arg:expr)*) => {
        match $id {
            "C02" => $f(&wire::checks::C02 $(, $arg)*),
            "C03" => $f(&wire::checks::C03 $(, $arg)*),
            "C09" => $f(&wire::checks::C09 $(, $arg)*),
            "C10" => $f(&wire::checks::C10 $(, $arg)*),
            other => {
                eprintln!("unknown or unclaimed property {}", other);
                std::process::exit(2);
            }
        }
    };
}

fn do_check<K: framework::Check>(k: &K, opts: &Options) -> i32 {
    framework::run_check(k, opts)
}

fn do_replay<K: framework::Check>(k: &K, rf: &ReplayFile, quiet: bool, strict: bool) -> i32 {
    framework::replay(k, rf, quiet, strict)
}

fn main() {
    panics::install();
    let args: Vec<String> = std::env::args().skip(1).collect();
    if args.is_empty() {
        usage();
    }
    match args[0].as_str() {
        "check" => {
            if args.len() < 2 {
                usage();
            }
            let id = args[1].as_str();
            let mut tier = match std::env::var("VERIF_TIER").as_deref() {
                Ok("thorough") => Tier::Thorough,
                _ => Tier::Quick,
            };
            let mut i = 2;
            while i < args.len() {
                match args[i].as_str() {
                    "--tier" => {
                        i += 1;
                        tier = match args.get(i).map(|s| s.as_str()) {
                            Some("quick") => Tier::Quick,
                            Some("thorough") => Tier::Thorough,
                            _ => usage(),
                        };
                    }
                    _ => usage(),
                }
                i += 1;
            }
            let opts = Options::from_env(tier);
            let code = dispatch!(id, do_check, &opts);
            std::process::exit(code);
        }
        "replay" => {
            if args.len() < 2 {
                usage();
            }
            let quiet = args.iter().any(|a| a == "--quiet");
            let strict = args.iter().any(|a| a == "--strict");
            let text = match std::fs::read_to_string(&args[1]) {
                Ok(t) => t,
                Err(e) => {
                    eprintln!("cannot read {}: {}", args[1], e);
                    std::process::exit(2);
                }
            };
            let rf: ReplayFile = match serde_json::from_str(&text) {
                Ok(r) => r,
                Err(e) => {
                    eprintln!("cannot parse {}: {}", args[1], e);
                    std::process::exit(2);
                }
            };
            let id = rf.property.clone();
            let code = dispatch!(id.as_str(), do_replay, &rf, quiet, strict);
            std::process::exit(code);
        }
        "list" => {
            println!("C02 C03 C09 C10");
        }
        _ => usage(),
    }
}
