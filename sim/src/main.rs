//! `mpdsim` — deterministic simulation harness for elomatreb/mpd_client (see /verif/DESIGN.md).

mod alloc;
mod canon;
mod framework;
mod panics;
mod prng;
mod session;
mod tracesub;
mod wire;

use framework::{Options, ReplayFile, Tier};

#[global_allocator]
static GLOBAL: alloc::Counting = alloc::Counting;

fn usage() -> ! {
    eprintln!(
        "usage: mpdsim check <ID> [--tier quick|thorough]\n       mpdsim replay <file> [--quiet] [--strict]\n       mpdsim list"
    );
    std::process::exit(2);
}

macro_rules! dispatch {
    ($id:expr, $f:ident $(, $arg:expr)*) => {
        match $id {
            "C02" => $f(&wire::checks::C02 $(, $arg)*),
            "C03" => $f(&wire::checks::C03 $(, $arg)*),
            "C09" => $f(&wire::checks::C09 $(, $arg)*),
            "C10" => $f(&wire::checks::C10 $(, $arg)*),
            "C01" => $f(&session::checks::C01 $(, $arg)*),
            "C04" => $f(&session::checks::C04 $(, $arg)*),
            "C05" => $f(&session::checks::C05 $(, $arg)*),
            "C08" => $f(&session::checks::C08 $(, $arg)*),
            "C17" => $f(&session::checks::C17 $(, $arg)*),
            "C18" => $f(&session::checks::C18 $(, $arg)*),
            other => {
                eprintln!("unknown or unclaimed property {}", other);
                std::process::exit(2);
            }
        }
    };
}

fn do_check<K: framework::Check>(k: &K, opts: &Options) -> i32 {
    framework::run_check(k, opts)
}

fn do_locate<K: framework::Check>(k: &K, seed: u64, index: u64, tier: Tier, path: &std::path::Path) -> i32 {
    framework::locate(k, seed, index, tier, path)
}

fn do_digests<K: framework::Check>(k: &K, seed: u64, n: u64, workers: usize) -> i32 {
    let d = framework::digests(k, seed, n, workers, Tier::Quick);
    let mut h = prng::Fnv::new();
    for (i, s, x) in &d {
        h.write_u64(*i);
        h.write_u64(*s as u64);
        h.write_u64(*x);
    }
    println!("digests property={} seed={} indexes={} evaluations={} combined={:016x}", k.id(), seed, n, d.len(), h.finish());
    0
}

fn do_replay<K: framework::Check>(k: &K, rf: &ReplayFile, quiet: bool, strict: bool) -> i32 {
    framework::replay(k, rf, quiet, strict)
}

fn main() {
    panics::install();
    tracesub::install_global();
    let args: Vec<String> = std::env::args().skip(1).collect();
    if args.is_empty() {
        usage();
    }
    match args[0].as_str() {
        "check" => {
            if args.len() < 2 {
                usage();
            }
            let id = args[1].as_str();
            let mut tier = match std::env::var("VERIF_TIER").as_deref() {
                Ok("thorough") => Tier::Thorough,
                _ => Tier::Quick,
            };
            let mut i = 2;
            while i < args.len() {
                match args[i].as_str() {
                    "--tier" => {
                        i += 1;
                        tier = match args.get(i).map(|s| s.as_str()) {
                            Some("quick") => Tier::Quick,
                            Some("thorough") => Tier::Thorough,
                            _ => usage(),
                        };
                    }
                    _ => usage(),
                }
                i += 1;
            }
            let opts = Options::from_env(tier);
            // validate the id before anything else
            if !"C01 C02 C03 C04 C05 C08 C09 C10 C17 C18".split(' ').any(|x| x == id) {
                eprintln!("unknown or unclaimed property {}", id);
                std::process::exit(2);
            }
            let code = if std::env::var_os("MPDSIM_INNER").is_some() {
                dispatch!(id, do_check, &opts)
            } else {
                framework::supervise(id, tier, &opts)
            };
            std::process::exit(code);
        }
        "locate" => {
            // mpdsim locate <ID> <tier> <index> <case-file>
            if args.len() < 5 {
                usage();
            }
            let id = args[1].as_str();
            let tier = if args[2] == "thorough" { Tier::Thorough } else { Tier::Quick };
            let index: u64 = args[3].parse().unwrap_or(0);
            let opts = Options::from_env(tier);
            let path = std::path::PathBuf::from(&args[4]);
            let code = dispatch!(id, do_locate, opts.seed, index, tier, &path);
            std::process::exit(code);
        }
        "digests" => {
            // mpdsim digests <ID> <n-indexes> [workers]
            if args.len() < 3 {
                usage();
            }
            let id = args[1].as_str();
            let n: u64 = args[2].parse().unwrap_or(100);
            let opts = Options::from_env(Tier::Quick);
            let workers = args.get(3).and_then(|w| w.parse().ok()).unwrap_or(opts.workers);
            let code = dispatch!(id, do_digests, opts.seed, n, workers);
            std::process::exit(code);
        }
        "replay" => {
            if args.len() < 2 {
                usage();
            }
            let quiet = args.iter().any(|a| a == "--quiet");
            let strict = args.iter().any(|a| a == "--strict");
            let text = match std::fs::read_to_string(&args[1]) {
                Ok(t) => t,
                Err(e) => {
                    eprintln!("cannot read {}: {}", args[1], e);
                    std::process::exit(2);
                }
            };
            let rf: ReplayFile = match serde_json::from_str(&text) {
                Ok(r) => r,
                Err(e) => {
                    eprintln!("cannot parse {}: {}", args[1], e);
                    std::process::exit(2);
                }
            };
            let id = rf.property.clone();
            let code = if std::env::var_os("MPDSIM_INNER").is_some() {
                dispatch!(id.as_str(), do_replay, &rf, quiet, strict)
            } else {
                framework::supervise_replay(&args[1], quiet, strict, &rf)
            };
            std::process::exit(code);
        }
        "smoke" => {
            use session::plan::*;
            let mut plan = Plan::empty(1);
            plan.callers = vec![vec![Op::Request { id: 1 }, Op::Think { ms: 150 }, Op::List { ids: vec![2, 3] }]];
            plan.changes = vec![ChangeEvent { at_ms: 50, names: vec!["player".into(), "mixer".into()] }];
            plan.net.s2c_mode = SegMode::Lines;
            plan.net.s2c_delay_ms = vec![1];
            let out = session::run::execute(&plan);
            for l in session::format_log(&out.log, 400) {
                println!("{}", l);
            }
            println!("ops: {:?}", out.ops.iter().map(|o| o.result.summary()).collect::<Vec<_>>());
            println!("events: {:?}", out.events);
            println!("panics: {:?} judge: {:?} server: {:?}", out.panics, out.judge.violations, out.server_violations);
        }
        "list" => {
            println!("C01 C02 C03 C04 C05 C08 C09 C10 C17 C18");
        }
        _ => usage(),
    }
}
