//! Counting global allocator: per-thread live/peak byte counters, used by C09/P3 (bounded memory).
//! Runs are confined to one worker thread, so thread-local accounting attributes correctly.

use std::alloc::{GlobalAlloc, Layout, System};
use std::cell::Cell;

pub struct Counting;

thread_local! {
    static LIVE: Cell<isize> = const { Cell::new(0) };
    static PEAK: Cell<isize> = const { Cell::new(0) };
    static LARGEST: Cell<usize> = const { Cell::new(0) };
}

fn add(n: usize) {
    let _ = LIVE.try_with(|l| {
        let v = l.get() + n as isize;
        l.set(v);
        let _ = PEAK.try_with(|p| {
            if v > p.get() {
                p.set(v)
            }
        });
    });
    let _ = LARGEST.try_with(|g| {
        if n > g.get() {
            g.set(n)
        }
    });
}

fn sub(n: usize) {
    let _ = LIVE.try_with(|l| l.set(l.get() - n as isize));
}

/// A single request above this size is refused (null), which makes the process abort
/// deterministically — in the batch and when the supervisor re-runs the case alone — instead of
/// depending on how much memory happens to be free. Nothing legitimate in the workloads comes
/// near it (streams are at most a few hundred KiB).
pub const SINGLE_REQUEST_LIMIT: usize = 1 << 30;

unsafe impl GlobalAlloc for Counting {
    unsafe fn alloc(&self, layout: Layout) -> *mut u8 {
        if layout.size() > SINGLE_REQUEST_LIMIT {
            return std::ptr::null_mut();
        }
        add(layout.size());
        unsafe { System.alloc(layout) }
    }
    unsafe fn dealloc(&self, ptr: *mut u8, layout: Layout) {
        sub(layout.size());
        unsafe { System.dealloc(ptr, layout) }
    }
    unsafe fn alloc_zeroed(&self, layout: Layout) -> *mut u8 {
        if layout.size() > SINGLE_REQUEST_LIMIT {
            return std::ptr::null_mut();
        }
        add(layout.size());
        unsafe { System.alloc_zeroed(layout) }
    }
    unsafe fn realloc(&self, ptr: *mut u8, layout: Layout, new_size: usize) -> *mut u8 {
        if new_size > SINGLE_REQUEST_LIMIT {
            return std::ptr::null_mut();
        }
        if new_size >= layout.size() {
            add(new_size - layout.size());
        } else {
            sub(layout.size() - new_size);
        }
        unsafe { System.realloc(ptr, layout, new_size) }
    }
}

/// Start measuring: peak := live, largest := 0. Returns the live baseline.
pub fn begin() -> isize {
    let live = LIVE.with(|l| l.get());
    PEAK.with(|p| p.set(live));
    LARGEST.with(|g| g.set(0));
    live
}

/// Peak bytes above the baseline since `begin`, and the largest single request.
pub fn end(baseline: isize) -> (usize, usize) {
    let peak = PEAK.with(|p| p.get());
    let largest = LARGEST.with(|g| g.get());
    ((peak - baseline).max(0) as usize, largest)
}
